"""C11 — channels and signals: include/fiber_signal.h (fiber_signal_t), include/fiber_channel.h
(bounded / unbounded / single-producer channels), include/fiber_multi_channel.h, with the
parking hand-shakes of src/fiber_manager.c (set_wait_location, mutex_to_unlock).

Client contracts respected by the generators (and ghost-checked by the models):
  fiber_signal_t            ONE waiting fiber, any number of raisers
  bounded / unbounded chan  ONE receiver (the ready_signal has one waiter), many senders
  sp channel                ONE receiver, ONE sender
  (the receiver may mix blocking receive and *_try_receive; the channel may have been created
   with a NULL ready_signal, in which case it spins instead of sleeping)
  multi channel             many senders, many receivers
Every script is deadlock-free by construction for a correct implementation (as many
receives/takes as sends/publishes; pure sender and pure receiver fibers), so a run that ends
HANG / BUDGET is a failing input (lost wake-up).
"""
from specs import sched_env, n_cases


def _env(rng, budget=300000, fair=False):
    env = sched_env(rng, budget=budget)
    while fair and env["VR_SCHED"] == "pct":
        # strict-priority (PCT) schedules are unfair: a fiber that busy-waits through
        # fiber_yield (bounded send on a full ring: "send will spin-loop") on a high-priority
        # kernel thread starves the thread that runs the receiver for ever; that is an
        # artefact of the schedule, not a lost wake-up, so such parts use fair schedules only
        env = sched_env(rng, budget=budget)
    # the windows of interest (decided-to-sleep .. CAS .. context switch .. marker) are a
    # handful of scheduling points wide: switch often
    if env["VR_SCHED"] == "rand":
        env["VR_SWITCH"] = rng.choice([2, 2, 3, 5])
    elif env["VR_SCHED"] == "freeze":
        env["VR_FREEZE_DEN"] = rng.choice([4, 8, 20])
        env["VR_FREEZE_LEN"] = rng.choice([15, 50, 200])
    return env


def _sprinkle(rng, ops, p=0.2):
    out = []
    for o in ops:
        out.append(o)
        if rng.random() < p:
            out.append("y")
    return out


def _split(rng, n, parts):
    c = [0] * parts
    for _ in range(n):
        c[rng.randrange(parts)] += 1
    return c


# ------------------------------------------------------------------ fiber_signal_t

def gen_signal(rng, tier):
    cases = []
    for _ in range(n_cases(tier, 500, 4000)):
        k = rng.choice([1, 2, 2, 3])
        n = rng.randrange(1, 6 if tier == "quick" else 10)
        nr = rng.choice([1, 2, 2, 3])
        fibers = [",".join(_sprinkle(rng, ["t"] * n))]
        for c in _split(rng, n, nr):
            ops = ["p"] * c + ["R"] * rng.choice([0, 0, 1, 2])
            rng.shuffle(ops)
            fibers.append(",".join(_sprinkle(rng, ops)) or "y")
        cases.append({"args": [k, "|".join(fibers)], "env": _env(rng)})
    return cases


# ------------------------------------------------------------------ fiber_channel.h

def gen_chan(kind):
    """kind b / u / s.  About 60 % of the cases are the original ones (a ready_signal, the receiver
    does one blocking `r` per message).  The rest exercise `*_try_receive` (receiver op `t`, and
    the final drain loop `d` = try_receive + yield until everything sent has been received) mixed
    with blocking receives, and channels created with a NULL signal (kind letter in upper case:
    "this channel will spin").  Deadlock-freedom: the harness performs an `r` as a `t` once every
    message of the script has been received, so a blocking receive is only entered while a
    message is still owed by a (pure) sender.  The unbounded / sp receive of a spinning channel
    busy-waits WITHOUT yielding, so on ONE kernel thread it would never let a sender run: those
    cases get no blocking `r` (recorded as an observation in DESIGN.md section 10)."""
    def gen(rng, tier):
        cases = []
        for _ in range(n_cases(tier, 400, 3500)):
            k = rng.choice([1, 2, 2, 3])
            p2 = rng.choice([1, 1, 2]) if kind == "b" else 0
            n = rng.randrange(1, 7 if tier == "quick" else 14)
            ns = 1 if kind == "s" else rng.choice([1, 2, 2, 3])
            mode = rng.random()
            spin = mode >= 0.80
            if mode < 0.60:
                rops = ["r"] * n
            else:
                # signal mode: always some try_receives; spin mode: a third keeps the plain script
                if spin and rng.random() < 0.33:
                    rops = ["r"] * n
                else:
                    rops = [rng.choice("rt") for _ in range(n)]
                    for _ in range(rng.randrange(0, 3)):
                        rops.insert(rng.randrange(len(rops) + 1), "t")
                if spin and kind in "us" and k == 1:
                    rops = ["t" if o == "r" else o for o in rops]
            rops = _sprinkle(rng, rops)
            if mode >= 0.60:
                rops.append("d")
            fibers = [",".join(rops)]
            v = 1
            for c in _split(rng, n, ns):
                ops = []
                for _ in range(c):
                    ops.append("s%d" % v)
                    v += 1
                fibers.append(",".join(_sprinkle(rng, ops)) or "y")
            # yield-polling loops (bounded send on a full ring, the drain loop, every receive of
            # a spinning channel) starve under strict-priority schedules: fair schedules only
            fair = kind == "b" or mode >= 0.60
            env = _env(rng, fair=fair)
            if kind in "us" and v > 2 and rng.random() < 0.3:
                # one message (mostly not the first) is a NULL payload in the real code: the
                # harness stores v - k, the runtime prints the data cells plus k (VR_BIAS)
                env = dict(env, VR_BIAS=".data:%d" % rng.randrange(2, v))
            cases.append({"args": [k, kind.upper() if spin else kind, p2, "|".join(fibers)],
                          "env": env})
        return cases
    return gen


# ------------------------------------------------------------------ fiber_multi_channel.h

# Regression corpus (run first): the deterministic replays of F-C11 — on ONE kernel thread the
# run is fully determined by the script, whatever the scheduler seed.  They hung on the code
# before /repo commit b18179b (one mixed waiter list) and complete since.
F_C11_CORPUS = [
    # capacity 2, senders 16 (s1,s2) 17 (s3) 18 (s4,s5,s6), receivers 19 (r,r) 20 (r) 21 (r,r,r):
    # (old code: ended with the ring full, waiter list [sender 16, receiver 21], nobody active)
    {"args": [1, 1, "s1,s2|s3|s4,s5,s6|r,r|r|r,r,r", "S3R3C2"],
     "env": {"VR_SEED": 1, "VR_SCHED": "rand", "VR_BUDGET": 200000}},
    {"args": [1, 1, "s1,s2|s3|s4,s5,s6|r,r|r|y|r,r,y,r", "S3R4C2"],
     "env": {"VR_SEED": 1, "VR_SCHED": "rand", "VR_BUDGET": 200000}},
]


def gen_multichan(rng, tier):
    cases = [dict(c) for c in F_C11_CORPUS]
    for _ in range(n_cases(tier, 700, 6000)):
        k = rng.choice([1, 1, 2, 2, 3])
        p2 = rng.choice([1, 1, 1, 2])
        ns = rng.choice([1, 2, 2, 3])
        nr = rng.choice([1, 2, 3, 4])
        total = rng.choice([2, 3, 4, 4, 6, 6, 8] if tier == "quick" else [2, 4, 6, 8, 8, 12, 12, 16])
        fibers = []
        v = 1
        for c in _split(rng, total, ns):
            ops = []
            for _ in range(c):
                ops.append("s%d" % v)
                v += 1
            fibers.append(",".join(_sprinkle(rng, ops, 0.25)) or "y")
        for c in _split(rng, total, nr):
            fibers.append(",".join(_sprinkle(rng, ["r"] * c, 0.25)) or "y")
        rng.shuffle(fibers)
        # number of fibers that really send / receive (a fiber with only `y` does neither)
        s_cnt = sum(1 for f in fibers if "s" in f)
        r_cnt = sum(1 for f in fibers if "r" in f)
        tag = "S%dR%dC%d" % (s_cnt, r_cnt, 1 << p2)
        cases.append({"args": [k, p2, "|".join(fibers), tag], "env": _env(rng, budget=400000)})
    return cases


def _contended(s):
    h = s["hist"]
    return s["interleaved"] or s["casfail"] > 0 or h.get("w F#.scratch", 0) > 0


def _multisignal_part():
    from parts_multisignal import PART_MULTISIGNAL
    p = dict(PART_MULTISIGNAL)
    g = p["gen"]

    def gen(rng, tier):
        cs = g(rng, tier)
        rng.shuffle(cs)
        return cs[: (3000 if tier == "thorough" else 300)]
    p["gen"] = gen
    return p


SPEC = {
    "C11": {
        "extra_props": ("QueueHist",),
        "parts": [
            {"name": "signal", "harness": "signal", "model": "Signal", "runtime": True, "gen": gen_signal,
             "nontrivial": lambda s: s["hist"].get("w F#.state", 0) >= 1},
            {"name": "chan-bounded", "harness": "chan", "model": "Chan", "runtime": True, "gen": gen_chan("b"),
             "nontrivial": _contended},
            {"name": "chan-unbounded", "harness": "chan", "model": "Chan", "runtime": True, "gen": gen_chan("u"),
             "nontrivial": _contended},
            {"name": "chan-sp", "harness": "chan", "model": "Chan", "runtime": True, "gen": gen_chan("s"),
             "nontrivial": _contended},
            {"name": "multichan", "harness": "multichan", "model": "MultiChan", "runtime": True, "gen": gen_multichan,
             "nontrivial": lambda s: s["hist"].get("w waiters", 0) >= 1},
            # the multi-waiter signal of include/fiber_signal.h (C20's harness and model): the same
            # header, the same wait / raise protocol with several waiters
            _multisignal_part(),
            # "for all capacities": every capacity exponent the constructors admit (1 <= k < 32); the
            # object must really have the 2^k slots the access-level models take for granted
            # (oracle-only parts: allocation size, recorded capacity and mask; a refusal is fine)
            {"name": "capacity-bounded", "harness": "chancap", "model": None, "runtime": True,
             "gen": lambda rng, tier: [{"args": ["b", k], "env": {"VR_SEED": 1}, "timeout": 120} for k in range(1, 32)]},
            {"name": "capacity-multi", "harness": "mchancap", "model": None, "runtime": True,
             "gen": lambda rng, tier: [{"args": ["m", k], "env": {"VR_SEED": 1}, "timeout": 120} for k in range(1, 32)]},
        ],
        "rule": "cases = (script, kernel threads 1-3, capacity, scheduler kind+seed) from VERIF_SEED; scripts are deadlock-free by construction (as many receives as sends; pure sender / pure receiver fibers; client contracts of each channel type respected); bounded/unbounded/sp channels: ~60% one blocking receive per message on a channel with a ready_signal, ~20% blocking receives mixed with *_try_receive and a final try_receive drain loop, ~20% channels created with a NULL signal (spin mode) with and without try_receive (a blocking receive is only entered while a message is still owed; no blocking receive on a spinning unbounded/sp channel with ONE kernel thread); distinct = different (harness args, sha1 of the (thread,kind,cell) access sequence); non-trivial = a fiber really went to sleep (signal: a WAITING/READY state write; multichan: the waiter list was written) or operations interleaved / a CAS failed",
        "trusted_base": [
            "MPSC/SPSC queues of the unbounded channels kept abstractly (ghost order + linked flags + pops), every logged head/tail/next/data value checked against it; adequacy for all interleavings is C15 (Mpsc.pop_is_next_in_order / Spsc)",
            "the multi channel's fiber mutex kept as an abstract lock (owner + counter word + hand-off event), its waiter-queue cells skipped by name; that the fiber mutex behaves like a lock is C03 (Mutex.mutual_exclusion / refines_lock)",
            "multi channel: the list discipline (one mixed waiter list / receivers' + senders' lists) is read off the struct layout by the harness and the trace is validated against that variant of the model; the full no_lost_wake theorem is for the two-list variant (/repo since b18179b)",
            "scheduler traffic on fiber state words is skipped (runtime model, C01/C02), except the deferred set_wait_location / mutex_to_unlock actions executed by the successor, which are model steps",
            "a woken fiber is eventually run by the scheduler (C02) — the models only say WHEN a wake-up is issued",
        ],
        "assumptions": [
            "client contract: one waiting fiber per fiber_signal_t; one receiver per bounded/unbounded/sp channel; one sender per sp channel; messages non-NULL and (for the monitors) distinct",
            "spinning (NULL-signal) unbounded / sp channel: a blocking receive on an empty channel busy-waits without yielding, so some OTHER kernel thread must be able to run the sender (the generators never block such a receiver when there is one kernel thread)",
            "64-bit high/low counters do not wrap",
        ],
    },
}
