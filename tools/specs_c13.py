"""C13 — MPMC FIFO (include/mpmc_fifo.h) with hazard-pointer reclamation and node reuse."""
import os
import sys

from specs import sched_env, n_cases

sys.path.insert(0, os.path.join(os.path.dirname(os.path.dirname(os.path.abspath(__file__))), "extract"))
import mpmc_extract  # noqa: E402


def pre(repo):
    """translator step (facts no trace shows): push/trypop retry without bound; EMPTY only where head->prev was NULL"""
    return mpmc_extract.check(repo)


# ------------------------------------------------------------------ C13 mpmc fifo


def gen_mpmc(rng, tier):
    cases = []
    quick = tier != "thorough"
    for i in range(n_cases(tier, 1200, 8000)):
        pool = rng.choice([3, 3, 4, 4, 5] if not quick else [3, 3, 4])
        # explicit hazard_pointer_scan after every k-th successful pop (legal API use;
        # retire_threshold itself cannot be lowered without editing the code)
        scan_every = rng.choice([1, 1, 1, 2, 0])
        nt = rng.choice([2, 2, 3, 3, 4, 5])
        maxops = 8 if quick else 30
        nxt = [1]
        threads = []
        # mix: balanced, producer-heavy thread + consumer-heavy threads, scan-happy
        style = rng.choice(["mixed", "mixed", "split", "churn"])
        for t in range(nt):
            ops = []
            n = rng.randrange(2, maxops + 1)
            for _ in range(n):
                r = rng.random()
                if style == "split":
                    ppush = 0.8 if t % 2 == 0 else 0.15
                elif style == "churn":
                    ppush = 0.5
                else:
                    ppush = 0.45
                if r < ppush:
                    ops.append("p%d" % nxt[0])
                    nxt[0] += 1
                elif r < 0.93 or scan_every == 1:
                    ops.append("o")
                else:
                    ops.append("g")
            if style == "churn":
                # push/pop pairs keep the tiny pool circulating: maximal reuse
                ops = []
                for _ in range(max(1, n // 2)):
                    ops += ["p%d" % nxt[0], "o"]
                    nxt[0] += 1
                ops = ops[:maxops]
            threads.append(",".join(ops))
        # late joiners: some threads publish their hazard-pointer record only when they start
        # running, racing the registration with the scans and pops of the others
        if rng.random() < 0.3:
            for t in rng.sample(range(nt), rng.randrange(1, nt)):
                threads[t] = "J," + threads[t]
        cases.append({"args": [pool, scan_every, "|".join(threads)], "env": sched_env(rng)})
    # teardown with items left: a producer-heavy run on 2 threads and a pool large enough for
    # the retirements inside mpmc_fifo_destroy to reach the threshold (2 * threads * slots) and
    # scan in the middle of the walk
    for i in range(n_cases(tier, 150, 1000)):
        pool = rng.randrange(6, 15)
        nxt = 1
        threads = []
        for t in range(2):
            ops = []
            for _ in range(rng.randrange(4, 10)):
                if rng.random() < 0.8:
                    ops.append("p%d" % nxt)
                    nxt += 1
                else:
                    ops.append("o")
            threads.append(",".join(ops))
        cases.append({"args": [pool, rng.choice([0, 0, 3]), "|".join(threads), "d"], "env": sched_env(rng)})
    rng.shuffle(cases)  # other properties take a prefix of this list (C14, C06): keep it a fair sample
    return cases


def post_mpmc(log_path, case):
    """extra oracle on the log: a logged read that returns the poison pattern of a reclaimed
    node (the model also rejects it; this names it)."""
    try:
        with open(log_path) as f:
            for line in f:
                if " r " in line and line.rstrip().endswith(" 912080"):
                    return "oracle poison: read of a reclaimed node's field: " + line.strip()
    except OSError:
        pass
    return None


def _hp_scale_part():
    from parts_hpscale import HP_SCALE_PART as src
    part = dict(src)

    def gen(rng, tier, _g=src["gen"]):
        cs = _g(rng, tier)
        return cs if tier == "thorough" else cs[:48]
    part["gen"] = gen
    return part


SPEC = {
    "C13": {
        "pre": pre,
        "extra_props": ("QueueHist",),
        "parts": [{"name": "mpmc", "harness": "mpmc", "model": "Mpmc", "gen": gen_mpmc, "post": post_mpmc},
                  # the composition assumption (C14: nothing protected is reclaimed) at scales and
                  # address patterns the access-level harness cannot reach: C14's scale part re-run here
                  _hp_scale_part()],
        "trusted_base": [
            "composition assumption: hazard pointers — a node is reclaimed (gc callback) only if it was retired and "
            "no thread holds a slot on it that was published and validated before the retirement "
            "(theorem Hp.no_reclaim_protected, property C14); the model takes `reclaim` as a ghost event with "
            "exactly this precondition and does not model the scan's private data (retired lists, plist, qsort)",
            "retirement is modelled at the successful head CAS (hazard_pointer_free is called a few "
            "instructions later, after both slots are cleared): this only enlarges the set of accepted traces",
            "client contract assumed by the Hp model is met by Mpmc: a node is retired once per incarnation by the "
            "popper whose head CAS unlinked it, a retired node is unreachable from head/tail "
            "(C13.retired_unreachable), validated slots only ever name inq/retired nodes "
            "(C13.protected_not_reused), and a node is handed out again only after its reclaim (`take` needs free)",
            "harness node pool / free list (reuse-first) is harness code, not library code",
        ],
        "assumptions": [
            "values pushed are non-NULL and pairwise distinct (monitor only; the theorems do not need it)",
            "weak CAS does not fail spuriously on x86-64 (cmpxchg)",
            "each thread uses its own hazard record with K = MPMC_HAZARD_COUNT = 2 slots",
            "a node handed to push is exclusively owned by the caller (client obligation, ghost-checked by `take`)",
        ],
    },
}
