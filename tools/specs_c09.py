"""C09 — sleeping fibers: src/fiber_event_native.c (fiber_sleep, fiber_event_wake_sleepers,
waiter_insert, waiter_remove_less_than, timer branch of fiber_poll_events_internal) and the
sleep/usleep/nanosleep shims of src/fiber_io.c.

Two parts, one executable (harness/sleep.c + harness/wrap_sleep.c, the unity wrapper that
replaces the library's own fiber_event_native.c):
  sleep     : the whole runtime on the VIRTUAL clock (VR_AUTOTICK=0; the main fiber advances
              time in microseconds and injects the timer expirations), traces validated against
              Model/Sleep.lean's variant named by the translator, API monitors
  sleeptree : differential test of the pure tree functions against the REAL waiter_insert /
              waiter_remove_less_than
"""
import os
import sys

import vlib
from specs import sched_env, n_cases

sys.path.insert(0, os.path.join(vlib.VERIF, "extract"))
import sleep_extract  # noqa: E402

PERIOD = 5000


def build():
    old = os.environ.get("VR_SKIP_LIB")
    os.environ["VR_SKIP_LIB"] = "fiber_event_native.c"
    try:
        return vlib.build_harness("sleep", runtime=True, extra_defs=("-DVR_WRAP_SLEEP",),
                                  extra_srcs=("wrap_sleep.c",))
    finally:
        if old is None:
            os.environ.pop("VR_SKIP_LIB", None)
        else:
            os.environ["VR_SKIP_LIB"] = old


def pre(repo):
    import poll_extract
    poll_extract.check(repo)  # idle kernel threads keep polling (a fact no run of the harness shows)
    sleep_extract.write_gen(repo)


def tree_flags():
    try:
        return sleep_extract.flags(sleep_extract.decisions(vlib.REPO))
    except sleep_extract.ExtractError as e:
        return sleep_extract.flags(getattr(e, "partial", None) or
                                   {"nextFirst": False, "drains": False, "widen": False})


def env_for(rng, kind=None, budget=1500000):
    e = sched_env(rng, budget=budget)
    if kind == "freeze":
        e = {"VR_SEED": rng.randrange(1, 1 << 30), "VR_SCHED": "freeze", "VR_BUDGET": budget,
             "VR_FREEZE_DEN": rng.choice([6, 15, 40]), "VR_FREEZE_LEN": rng.choice([80, 300, 600])}
    elif kind == "rr":
        e = {"VR_SEED": rng.randrange(1, 1 << 30), "VR_SCHED": "rr", "VR_BUDGET": budget}
    e["VR_AUTOTICK"] = 0
    return e


def rand_sleep(rng):
    """one sleep op: all duration classes of the property's quantifier"""
    r = rng.random()
    if r < 0.15:
        us = 0
    elif r < 0.45:
        us = rng.randrange(1, PERIOD)                      # sub-tick
    elif r < 0.75:
        us = rng.randrange(PERIOD, 6 * PERIOD)             # a few ticks, not a multiple
    elif r < 0.85:
        us = rng.choice([1, 2, 3, 4]) * PERIOD              # exact multiples
    else:
        us = rng.randrange(1, 3) * 1000000 + rng.randrange(0, 1000000)  # seconds + microseconds
    k = rng.random()
    if k < 0.4:
        return "s%d_%d" % (us // 1000000, us % 1000000)
    if k < 0.75:
        return "u%d" % us
    if k < 0.95:
        return "n%d_%d" % (us // 1000000, (us % 1000000) * 1000 + rng.randrange(0, 1000))
    return "S%d" % rng.choice([0, 1])


def rand_clock(rng, busy_idx):
    ops = []
    for _ in range(rng.randrange(0, 8)):
        r = rng.random()
        if r < 0.45:
            ops.append("a%d" % rng.choice([1, 17, 999, 2500, 4999, 5000, 5001, 12345, 20000, 25000, 40000,
                                           rng.randrange(1, 60000)]))
        elif r < 0.65:
            ops.append("p")
        elif r < 0.85:
            ops.append("y")
        elif r < 0.93:
            ops.append("r")
        elif busy_idx and r < 0.97:
            ops.append("w%d" % rng.choice(busy_idx))
        else:
            ops.append("t%d" % rng.randrange(1, 4))
    return ",".join(ops) if ops else "-"


def gen_sleep(rng, tier):
    fl = tree_flags()
    cases = []

    def case(k, clock, script, env):
        cases.append({"args": [k, fl, clock, script], "env": env})

    # ---- directed: unread expirations credited to a new sleeper (F-C09b), one kernel thread
    for pend, d in [(4, 2000), (2, 0), (3, 4999), (9, 30000), (250, 1000000)]:
        case(1, "a%d,y,p,y" % (pend * PERIOD), "u%d" % d, env_for(rng, "rr"))
    case(1, "a%d,y,p,y" % (5 * PERIOD), "s0_10000|b3", env_for(rng, "rr"))
    case(2, "a%d,y,p,y" % (6 * PERIOD), "n0_7000000|b40|b40", env_for(rng, "rand"))
    # ---- directed: tick phase — the call is made 1 us before a tick, the poll comes right after it:
    # a sub-millisecond request must survive that tick (sleep_ms = 1, woken only when ttc > wake_time)
    for op in ["u999", "u1", "s0_500", "n0_999000", "u999|u999|s0_1"]:
        case(1, "a%d,y,a1,p,y" % (PERIOD - 1), op, env_for(rng, "rr"))
    case(2, "a%d,y,r,a1,p,y,r" % (2 * PERIOD - 1), "u700|b30|s0_999", env_for(rng, "rand"))
    # ---- directed: 32-bit arithmetic (F-C09c)
    for op in ["s4294968_0", "s4294967_296000", "s4294967_295000", "n4294967296_0", "n4294967297_500",
               "S4294968", "s4294967_294999", "n4294967295_999999999"]:
        case(1, "-", op, env_for(rng, "rr"))
    # ---- directed: equal-deadline chains woken while thieves run the woken fibers (F-C09a)
    n_a = n_cases(tier, 60, 400)
    for _ in range(n_a):
        nf = rng.choice([3, 4, 5, 5, 6])
        reps = rng.choice([3, 4, 6, 8])
        d = rng.choice(["s0_1000", "s0_1000", "u2000", "s0_0"])
        script = "|".join(",".join([d] * reps) for _ in range(nf))
        case(rng.choice([2, 3, 3]), "-", script, env_for(rng, "freeze"))
    # ---- others keep running while fibers sleep
    case(1, "w1", "s0_20000|b12", env_for(rng, "rr"))
    case(2, "w2", "u7000|u7000|b25,y", env_for(rng, "rand"))
    # ---- random
    for _ in range(n_cases(tier, 220, 3000)):
        nf = rng.randrange(1, 5 if tier == "quick" else 7)
        fibers = []
        busy_idx = []
        for i in range(nf):
            if rng.random() < 0.2:
                fibers.append(",".join(rng.choice(["b%d" % rng.randrange(1, 30), "y"]) for _ in range(rng.randrange(1, 3))))
                busy_idx.append(i)
                continue
            ops = []
            same = rand_sleep(rng) if rng.random() < 0.3 else None
            for _ in range(rng.randrange(1, 4 if tier == "quick" else 6)):
                r = rng.random()
                if r < 0.75:
                    ops.append(same or rand_sleep(rng))
                elif r < 0.9:
                    ops.append("b%d" % rng.randrange(1, 12))
                else:
                    ops.append("y")
            fibers.append(",".join(ops))
        if rng.random() < 0.25:
            # equal deadlines: everybody sleeps for the same duration
            d = rand_sleep(rng)
            fibers = [",".join([d] * rng.randrange(1, 4)) for _ in range(nf)]
            busy_idx = []
        case(rng.choice([1, 2, 2, 3]), rand_clock(rng, busy_idx), "|".join(fibers), env_for(rng))
    return cases


def gen_tree(rng, tier):
    cases = []
    for _ in range(n_cases(tier, 60, 600)):
        ops = []
        hi = rng.choice([3, 6, 12, 40])
        for _ in range(rng.randrange(1, 40)):
            if rng.random() < 0.7:
                ops.append("i%d" % rng.randrange(0, hi))
            else:
                ops.append("r%d" % rng.randrange(0, hi + 2))
        ops.append("r%d" % (hi + 5))
        cases.append({"args": ["diff", ",".join(ops)], "env": {"VR_SEED": 1}})
    # deadlines far apart: differences of 2^31, 2^32 (ticks: weeks of sleeping next to a short
    # sleep) and beyond; an ordering decision taken on a narrowed difference mis-sorts the tree
    pts = [0, 1, 2, 5, (1 << 31) - 1, 1 << 31, (1 << 31) + 1, (1 << 32) - 1, 1 << 32, (1 << 32) + 1, (1 << 32) + 5,
           3 << 31, 1 << 33, (1 << 40) + 7, (1 << 62) + 3]
    for _ in range(n_cases(tier, 40, 400)):
        ops = []
        base = rng.choice([0, 0, 1000, (1 << 32) - 3, 123456789])
        for _ in range(rng.randrange(2, 16)):
            if rng.random() < 0.7:
                ops.append("i%d" % (base + rng.choice(pts)))
            else:
                ops.append("r%d" % (base + rng.choice(pts) + rng.choice([0, 1])))
        ops.append("r%d" % (base + (1 << 63)))
        cases.append({"args": ["diff", ",".join(ops)], "env": {"VR_SEED": 1}})
    return cases


def _guard_rt_part():
    """sleeps next to every other way of parking (mutex, semaphore, join, fd waits, refused fd
    waits and closes): C01's mixed programs followed by the runtime model, re-run here - a waiter
    record left behind by another primitive's error path wakes a sleeper early"""
    def gen(rng, tier):
        import importlib
        m = importlib.import_module("specs_c01")
        cs = m.PART_RT["gen"](rng, tier)
        cs = [c for c in cs if "s" in c["args"][1].replace("|", ",").split(",")]
        rng.shuffle(cs)
        return cs[: (2000 if tier == "thorough" else 200)]

    def build():
        import importlib
        return importlib.import_module("specs_c01").PART_RT["build"]()
    return {"name": "guard-rt", "harness": "rt", "model": "Rt", "runtime": True, "gen": gen, "build": build}


SPEC = {
    "C09": {
        "pre": pre,
        "parts": [
            {"name": "sleep", "harness": "sleep", "model": "Sleep", "runtime": True, "build": build,
             "gen": gen_sleep,
             "nontrivial": lambda s: s["hist"].get("note resumed", 0) >= 2},
            {"name": "sleeptree", "harness": "sleep", "model": "Sleep", "runtime": True, "build": build,
             "gen": gen_tree,
             "nontrivial": lambda s: s["hist"].get("note rem", 0) >= 1},
            _guard_rt_part(),
        ],
        "rule": "cases = (kernel threads 1-3, clock script of the main fiber: advance virtual time by N us / poll / yield / wait-for-fiber, fiber scripts: fiber_sleep / usleep / nanosleep / sleep with 0, sub-tick, non-multiple, exact-multiple and seconds+microseconds durations, busy loops, yields; scheduler kind+seed) from VERIF_SEED, plus directed families for unread expirations, 32-bit overflow and equal-deadline chains under freeze schedules; sleeptree: random insert/remove sequences on the real tree functions; distinct = different (args, sha1 of access sequence); non-trivial = at least two sleeps were woken / at least one removal returned a node",
        "trusted_base": [
            "extract/sleep_extract.py names the model variant (nextFirst, drains, widen, period) from the source text; it fails closed on any unrecognised shape; every trace is validated against exactly that variant",
            "harness/wrap_sleep.c: unity include of the real fiber_event_native.c with three call-site redirections (fiber_manager_get / fiber_manager_yield in fiber_sleep, fibershim_read) that call the original function and add a log note / register or forget the on-stack waiter_el_t cells",
            "virtual clock: rt/vrt.c replaces the timerfd by a non-blocking eventfd (same read-and-reset counter semantics) and epoll_wait by a zero-timeout poll; harness/sleep.c advances virtual time in microseconds and injects one expiration per period crossed",
            "mutual exclusion of sleep_spinlock (ticket lock): C18 (Spin.mutual_exclusion); the model's lock acquisition step requires the lock to be free",
            "a fiber made READY and scheduled is run exactly once (C02) and only from a saved context (C01); scheduler traffic on fiber state words is skipped here",
            "timer_trigger_count and wake times are 64-bit and do not wrap (2^64 ticks are unreachable)"],
        "assumptions": ["fiber_sleep is called from a fiber of a started runtime (event_fd >= 0)",
                        "tv_nsec < 10^9, tv_sec >= 0 (nanosleep's own argument contract)"],
    },
}
