/* cond.c — correspondence harness for src/fiber_cond.c (C05).
 * usage: cond <kernel threads> <script>
 * One condition variable C, one user mutex M.  Script ops (one list per fiber):
 *   w  lock M; cond_wait(C, M); [critical section]; unlock M      (NO predicate loop)
 *   s  lock M; signal;    unlock M          S  signal    without holding M
 *   b  lock M; broadcast; unlock M          B  broadcast without holding M
 *   y  yield
 * An extra SWEEPER fiber is appended to the script: whenever every unfinished script fiber
 * sits in `w` it takes M and broadcasts, so every script is deadlock-free by construction;
 * a waiter that is not released by that (it registered before the sweeper got M) is a lost
 * wake-up and ends as status BUDGET / HANG.
 *
 * Notes: `call lock`/`ret lock`/`call unlock`/`ret unlock` are about M;
 * `call wait`/`ret wait`; `call signal <holdsM>`/`ret signal`; `call broadcast <holdsM>`/
 * `ret broadcast`; `cs enter`/`cs exit` bracket the critical section after a wait. */
/* crowds: more simultaneous waiters than 127 / 255 */
#define VH_MAXF 400
#include "rtcommon.h"
#include "fiber_cond.h"
#include "fiber_mutex.h"

static fiber_cond_t cnd;
static fiber_mutex_t mtx;
static volatile long shared;      /* protected by M */
static volatile int inwait;       /* protected by M: fibers between `call wait` and `ret wait` */
static int nscript;               /* script fibers without the sweeper */

static void lockM(void) {
  vr_note("call lock");
  fiber_mutex_lock(&mtx);
  vr_note("ret lock");
}

static void unlockM(void) {
  vr_note("call unlock");
  fiber_mutex_unlock(&mtx);
  vr_note("ret unlock");
}

static void do_signal(int holds) {
  vr_note("call signal %d", holds);
  fiber_cond_signal(&cnd);
  vr_note("ret signal");
}

static void do_broadcast(int holds) {
  vr_note("call broadcast %d", holds);
  fiber_cond_broadcast(&cnd);
  vr_note("ret broadcast");
}

static void do_op(int t, const char* op) {
  switch (op[0]) {
    case 'w': {
      lockM();
      inwait = inwait + 1;
      vr_note("call wait");
      fiber_cond_wait(&cnd, &mtx);
      vr_note("ret wait");
      inwait = inwait - 1;
      vr_note("cs enter %d", t);
      long v = shared;
      fiber_yield();
      shared = v + 1;
      vr_note("cs exit %d %ld", t, v + 1);
      unlockM();
      break;
    }
    case 's': lockM(); do_signal(1); unlockM(); break;
    case 'b': lockM(); do_broadcast(1); unlockM(); break;
    case 'S': do_signal(0); break;
    case 'B': do_broadcast(0); break;
    case 'y': fiber_yield(); break;
    case 'Z': /* sweeper */
      while (vh_done_count < nscript) {
        int remaining = nscript - vh_done_count;
        if (inwait > 0 && inwait >= remaining) {
          lockM();
          /* under M: every fiber counted in `inwait` has released M, hence is registered */
          if (inwait > 0 && inwait >= nscript - vh_done_count) {
            vr_note("sweep %d", inwait);
            do_broadcast(1);
          }
          unlockM();
        }
        fiber_yield();
        vr_relax();
      }
      break;
  }
}

VH_NOINSTR static void reg_mutex(fiber_mutex_t* m, const char* p, const char* stub) {
  vr_reg(&m->counter, sizeof m->counter, "%s.counter", p);
  vr_reg((void*)&m->waiters.head, 8, "%s.head", p);
  vr_reg(&m->waiters.tail, 8, "%s.tail", p);
  vr_obj(m->waiters.tail, sizeof(mpsc_fifo_node_t), "%s", stub);
  vr_reg((void*)&m->waiters.tail->next, 8, "%s.next", stub);
  vr_reg(&m->waiters.tail->data, 8, "%s.data", stub);
}

VH_NOINSTR int main(int argc, char** argv) {
  if (argc < 3) return 2;
  int k = atoi(argv[1]);
  vh_parse(argv[2]);
  nscript = vh_script.nfibers;
  if (nscript >= VH_MAXF) return 2;
  vh_script.ops[nscript][0] = "Z";
  vh_script.nops[nscript] = 1;
  vh_script.nfibers = nscript + 1;
  fiber_manager_init(k);
  VH_DIRTY(mtx);
  VH_DIRTY(cnd);
  fiber_mutex_init(&mtx);
  fiber_cond_init(&cnd);
  vr_reg(&cnd.waiter_count, sizeof cnd.waiter_count, "C.count");
  vr_reg((void*)&cnd.waiters.head, 8, "C.head");
  vr_reg(&cnd.waiters.tail, 8, "C.tail");
  vr_obj(cnd.waiters.tail, sizeof(mpsc_fifo_node_t), "CS");
  vr_reg((void*)&cnd.waiters.tail->next, 8, "CS.next");
  vr_reg(&cnd.waiters.tail->data, 8, "CS.data");
  reg_mutex(&cnd.internal_mutex, "I", "IS");
  reg_mutex(&mtx, "M", "MS");
  vr_note("init cond %d %d", k, nscript);
  vh_rt_run(k, do_op, 0);
  vr_finish("OK");
}
