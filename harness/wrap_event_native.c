/* wrap_event_native.c — unity wrapper around /repo/src/fiber_event_native.c.
 *
 * `#include`s the REAL source (never a copy) so the harnesses can reach its file-static
 * state through accessor functions.  vlib.build_harness skips the library's own copy of
 * fiber_event_native.c whenever this file is listed in a part's `extra_srcs`.
 *
 * Used by harness/io.c (C08).  (C09 has its own unity wrapper, harness/wrap_sleep.c.)  Append new
 * accessors, never change an existing one.
 */
#include "fiber_event_native.c"

/* ---------------------------------------------------------------- C08 (harness/io.c) */
/* wait_info[] : one {int events; int added; fiber_spinlock_t spinlock; void* waiters} per fd */
void* vw_wait_info_base(void) { return wait_info; }
unsigned long vw_wait_info_stride(void) { return sizeof(fd_wait_info_t); }
unsigned long vw_wait_info_off_events(void) { return offsetof(fd_wait_info_t, events); }
unsigned long vw_wait_info_off_added(void) { return offsetof(fd_wait_info_t, added); }
unsigned long vw_wait_info_off_spinlock(void) { return offsetof(fd_wait_info_t, spinlock); }
unsigned long vw_wait_info_off_waiters(void) { return offsetof(fd_wait_info_t, waiters); }
long vw_event_max_fd(void) { return max_fd; }
int vw_event_fd(void) { return event_fd; }
int vw_timer_fd(void) { return timer_fd; }

