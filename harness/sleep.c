/* sleep.c — whole-runtime harness for property C09 (src/fiber_event_native.c: fiber_sleep,
 * fiber_event_wake_sleepers, waiter_insert, waiter_remove_less_than, the timer branch of
 * fiber_poll_events_internal; src/fiber_io.c: sleep/usleep/nanosleep).
 *
 * usage: sleep <kernel threads> <decisions> <clock script> <fiber scripts>
 *        sleep diff <op,op,...>          (differential test of the two pure tree functions)
 *
 * VIRTUAL CLOCK.  Run with VR_AUTOTICK=0.  `now_us` is the virtual time in microseconds since
 * fiber_event_init() armed the periodic timer (period FIBER_TIME_RESOLUTION_MS); the timer's
 * expiration counter is rt/vrt.c's eventfd.  Only the MAIN fiber (the "clock") advances time:
 * `now_us += d` and, for every multiple of the period crossed, one expiration is added to the
 * counter — both without a scheduling point in between, so the notes of every fiber read a
 * consistent clock, with microsecond resolution = every phase of the tick.
 *
 * clock script (main fiber), comma separated:
 *   a<us>   advance virtual time by <us> microseconds
 *   p       fiber_poll_events()  (what an idle kernel thread does)
 *   y       fiber_yield()
 *   r       plain scheduling point that lets the other kernel threads run
 *   t<k>    k times: a<period>, p, y
 *   w<i>    wait, WITHOUT advancing time, until script fiber <i> has finished (p, y, r in a
 *           loop): the others-keep-running clause; gives up with status STARVED
 * after the script the clock keeps going (advance, poll, yield) until every script fiber has
 * finished; after 60 rounds of one period each it jumps to the earliest deadline in the tree, so
 * arbitrarily long sleeps end while time never runs ahead of what some sleeper asked for.
 * Status LOST = a DEFINITE lost sleeper (vw_lost_check in wrap_sleep.c): a fiber is parked in
 * fiber_sleep while sleep_spinlock is free and it is not in the sleepers tree, or overdue in it.
 *
 * fiber scripts ('|' separated, one per fiber):
 *   s<sec>_<usec>  fiber_sleep(sec, usec)      u<usec>  usleep(usec)
 *   n<sec>_<nsec>  nanosleep({sec, nsec})      S<sec>   sleep(sec)
 *   b<k>           k times fiber_yield() — a busy fiber: its kernel thread does not poll
 *   y              fiber_yield()
 * notes:  call sleep <kind> <a> <b> <now_us>   /   ret sleep <now_us>
 */
#include <time.h>
#include <unistd.h>

#include "rtcommon.h"
#include "fiber_event.h"

extern void* vw_sleepers_addr(void);
extern void* vw_ttc_addr(void);
extern void* vw_sleep_lock_addr(void);
extern void vw_diff(int nops, char** ops);
extern unsigned long long vw_ticks_to_next_deadline(void);
extern int vw_lost_check(fiber_t** fibers, const volatile int* done, int nfibers, int* lost_ids);

#define PERIOD_US (FIBER_TIME_RESOLUTION_MS * 1000ull)
#define NOW_MAX (1ull << 62)

static volatile unsigned long long now_us;
static volatile int fiber_done[VH_MAXF];

VH_NOINSTR static void advance(unsigned long long d) {
  if (now_us + d > NOW_MAX) d = NOW_MAX - now_us;
  const unsigned long long k = (now_us + d) / PERIOD_US - now_us / PERIOD_US;
  now_us += d;
  vr_note("tick %llu %llu", d, k);
  vr_tick(k);
}

static void do_op(int t, const char* op) {
  unsigned long long a = 0, b = 0;
  const char* us = strchr(op, '_');
  a = strtoull(op + 1, NULL, 10);
  if (us) b = strtoull(us + 1, NULL, 10);
  switch (op[0]) {
    case 's':
      vr_note("call sleep s %llu %llu %llu", a, b, now_us);
      fiber_sleep((uint32_t)a, (uint32_t)b);
      vr_note("ret sleep %llu", now_us);
      break;
    case 'u':
      vr_note("call sleep u %llu 0 %llu", a, now_us);
      usleep((useconds_t)a);
      vr_note("ret sleep %llu", now_us);
      break;
    case 'S':
      vr_note("call sleep S %llu 0 %llu", a, now_us);
      sleep((unsigned)a);
      vr_note("ret sleep %llu", now_us);
      break;
    case 'n': {
      struct timespec ts;
      ts.tv_sec = (time_t)a;
      ts.tv_nsec = (long)b;
      vr_note("call sleep n %llu %llu %llu", a, b, now_us);
      nanosleep(&ts, NULL);
      vr_note("ret sleep %llu", now_us);
      break;
    }
    case 'b':
      for (unsigned long long i = 0; i < a; i++) {
        vr_note("busy %d", t);
        fiber_yield();
      }
      break;
    case 'y':
      fiber_yield();
      break;
  }
}

static void* sleep_fiber_main(void* arg) {
  void* r = vh_fiber_main(arg);
  fiber_done[(int)(long)arg] = 1;
  return r;
}

VH_NOINSTR static void clock_op(const char* op) {
  const unsigned long long a = strtoull(op + 1, NULL, 10);
  switch (op[0]) {
    case 'a':
      advance(a);
      break;
    case 'p':
      fiber_poll_events();
      break;
    case 'y':
      fiber_yield();
      break;
    case 'r':
      vr_relax();
      break;
    case 't':
      for (unsigned long long i = 0; i < a; i++) {
        advance(PERIOD_US);
        fiber_poll_events();
        fiber_yield();
      }
      break;
    case 'w': {
      long rounds = 0;
      vr_note("wait %llu", a);
      while (a < VH_MAXF && !fiber_done[a]) {
        fiber_poll_events();
        fiber_yield();
        vr_relax();
        if (++rounds > 50000) {
          vr_note("starved %llu", a);
          vr_finish("STARVED");
        }
      }
      vr_note("waited %llu", a);
      break;
    }
  }
}

VH_NOINSTR int main(int argc, char** argv) {
  if (argc >= 3 && !strcmp(argv[1], "diff")) {
    char* ops[4096];
    int n = 0;
    char* save = NULL;
    for (char* op = strtok_r(strdup(argv[2]), ",", &save); op && n < 4096; op = strtok_r(NULL, ",", &save)) ops[n++] = op;
    vr_note("init sleeptree");
    vw_diff(n, ops);
    vr_finish("OK");
  }
  if (argc < 5) return 2;
  const int k = atoi(argv[1]);
  vh_parse(argv[4]);
  fiber_manager_init(k);
  vh_rt_prepare(); /* run queues named, main fiber registered: the runtime model can follow this log too */
  vr_reg(vw_sleepers_addr(), 8, "root");
  vr_reg(vw_ttc_addr(), 8, "ttc");
  vr_reg(vw_sleep_lock_addr(), 8, "lk");
  vr_note("init sleep %d %d %s %llu", k, vh_script.nfibers, argv[2], PERIOD_US);
  vh_do_op = do_op;
  for (int t = 0; t < vh_script.nfibers; t++) {
    vh_fibers[t] = fiber_create_no_sched(65536, sleep_fiber_main, (void*)(long)t);
    vh_reg_fiber(vh_fibers[t], t);
    fiber_detach(vh_fibers[t]);
  }
  vr_note("spawn %d", vh_script.nfibers); /* for the runtime model: all harness fibers exist now */
  for (int t = 0; t < vh_script.nfibers; t++) fiber_manager_schedule(fiber_manager_get(), vh_fibers[t]);

  /* the clock */
  char* save = NULL;
  for (char* op = strtok_r(strdup(argv[3]), ",", &save); op; op = strtok_r(NULL, ",", &save))
    if (*op != '-') clock_op(op);
  unsigned long long step = PERIOD_US;
  for (long round = 0; vh_done_count < vh_script.nfibers; round++) {
    int lost_ids[VH_MAXF];
    const int lost = vw_lost_check(vh_fibers, fiber_done, vh_script.nfibers, lost_ids);
    if (lost) {
      char buf[200];
      size_t l = 0;
      for (int i = 0; i < lost; i++) l += snprintf(buf + l, sizeof buf - l, " %d", lost_ids[i]);
      vr_note("lost%s", buf);
      vr_finish("LOST");
    }
    /* one period per round; after a while jump straight to the earliest deadline so that
     * arbitrarily long sleeps end (time never runs ahead of what some sleeper asked for) */
    step = PERIOD_US;
    if (round >= 60) {
      const unsigned long long nd = vw_ticks_to_next_deadline();
      if (nd > 1 && nd < NOW_MAX / PERIOD_US) step = nd * PERIOD_US;
    }
    if (now_us < NOW_MAX) advance(step);
    fiber_poll_events();
    fiber_yield();
    vr_relax();
  }
  vr_set_done();
  vr_finish("OK");
}
