/* multichan.c — correspondence harness for include/fiber_multi_channel.h (C11).
 * fiber_multi_channel_t: bounded ring (capacity 2^p) under a fiber mutex, MANY senders and
 * MANY receivers; a sender blocks while the ring is full, a receiver while it is empty, both
 * on intrusive lists linked through fiber_t.scratch (ONE mixed list `waiters` before /repo
 * commit b18179b, since then `waiters` for receivers and `send_waiters` for senders — the
 * harness reports which in its init note); the blocked fiber's lock
 * is released by its successor (manager->mutex_to_unlock); every successful send/receive
 * wakes the head of a list (the mixed one, resp. the list of the OTHER kind).
 *
 * usage: multichan <kernel threads> <log2 capacity> <script>
 * every script fiber is either a pure sender (ops s<v>: send the distinct positive int v,
 * y: yield) or a pure receiver (ops r, y); the generator keeps #s == #r over the whole
 * script, so with a correct channel no fiber can stay blocked for ever. */
#include "rtcommon.h"
#include "fiber_multi_channel.h"

static fiber_multi_channel_t* mc;

static void do_op(int t, const char* op) {
  switch (op[0]) {
    case 's': {
      long v = atol(op + 1);
      vr_note("call push %ld", v);
      fiber_multi_channel_send(mc, (void*)v);
      vr_note("ret push 1");
      break;
    }
    case 'r': {
      vr_note("call pop");
      long v = (long)fiber_multi_channel_receive(mc);
      vr_note("ret pop %ld", v);
      break;
    }
    case 'y':
      fiber_yield();
      break;
  }
  (void)t;
}

VH_NOINSTR int main(int argc, char** argv) {
  if (argc < 4) return 2;
  int k = atoi(argv[1]);
  int p2 = atoi(argv[2]);
  vh_parse(argv[3]);
  fiber_manager_init(k);
  vh_dirty_heap();
  mc = fiber_multi_channel_create(p2);
  vr_reg(&mc->lock.counter, sizeof mc->lock.counter, "m.counter");
  vr_reg((void*)&mc->lock.waiters.head, 8, "m.head");
  vr_reg(&mc->lock.waiters.tail, 8, "m.tail");
  vr_obj(mc->lock.waiters.tail, sizeof(mpsc_fifo_node_t), "S");
  vr_reg((void*)&mc->lock.waiters.tail->next, 8, "S.next");
  vr_reg(&mc->lock.waiters.tail->data, 8, "S.data");
  vr_reg(&mc->high, 8, "high");
  vr_reg(&mc->low, 8, "low");
  vr_reg(&mc->waiters, 8, "waiters");
  /* list discipline of the build under test, read off the struct layout (no source hook):
   * ONE mixed waiter list (the code before /repo commit b18179b) leaves exactly one pointer
   * between `waiters` and `buffer`; TWO lists (receivers: `waiters`, senders: `send_waiters`)
   * leave two.  The second list head is registered by offset so that this file compiles
   * against either layout. */
  int nlists = (int)((offsetof(fiber_multi_channel_t, buffer) - offsetof(fiber_multi_channel_t, waiters)) / sizeof(void*));
  if (nlists >= 2) vr_reg((char*)&mc->waiters + sizeof(void*), 8, "send_waiters");
  for (uint32_t i = 0; i < mc->size; i++) vr_reg(&mc->buffer[i], 8, "buf%u", i);
  vr_note("init multichan %u %d", mc->size, nlists >= 2 ? 2 : 1);
  vh_rt_run(k, do_op, 0);
  vr_finish("OK");
}
