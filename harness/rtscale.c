/* rtscale.c — scale harness for the scheduler (C02 runtime half: "no runnable fiber remains queued
 * once every kernel thread has gone idle", "any number of fibers").  The access-level harnesses
 * follow every state word and keep the number of fibers in the hundreds; this one runs the REAL
 * runtime with tens of thousands of runnable fibers in one run queue (no cell is registered, the
 * run-queue call-site events are not consumed by any model):
 *   usage: rtscale <kernel threads> <fibers N> <yields per fiber>
 * Every fiber bumps a counter, yields the given number of times and returns its own token; the
 * main fiber joins them all.  Oracle: every fiber ran and returned its token (status OK); a run
 * queue whose length is mis-measured leaves them queued while the threads idle (HANG / BUDGET),
 * a wrong join result is status ORACLE. */
#define VH_MAXF 16
#include "rtcommon.h"

static _Atomic long ran;
static int yields;

static void* body(void* arg) {
  ran++;
  for (int i = 0; i < yields; i++) fiber_yield();
  return arg;
}

VH_NOINSTR int main(int argc, char** argv) {
  if (argc < 4) return 2;
  const int k = atoi(argv[1]);
  const long n = atol(argv[2]);
  yields = atoi(argv[3]);
  fiber_manager_init(k);
  vr_note("init rtscale %d %ld %d", k, n, yields);
  fiber_t** f = calloc(n, sizeof *f);
  for (long i = 0; i < n; i++) {
    f[i] = fiber_create(16384, body, (void*)(i + 1));
    if (!f[i]) vr_finish("NOMEM");
  }
  long bad = 0;
  for (long i = 0; i < n; i++) {
    void* r = NULL;
    if (fiber_join(f[i], &r) != FIBER_SUCCESS || r != (void*)(i + 1)) bad++;
  }
  vr_note("done fibers %ld ran %ld badjoin %ld", n, (long)ran, bad);
  if (bad || ran != n) { vr_note("ORACLE ran %ld of %ld, %ld bad joins", (long)ran, n, bad); vr_finish("ORACLE"); }
  vr_set_done();
  vr_finish("OK");
}
