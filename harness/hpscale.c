/* hpscale.c — scale harness for the hazard-pointer scan (C14: "for 1..N participating records,
 * K hazard slots each ... all address patterns").  The access-level harness (hazard.c) follows
 * every access and therefore keeps N and K small; this one runs the REAL scan on big
 * configurations, single-threaded and deterministic (one thread may own several records):
 *   usage: hpscale <records R> <slots K> <spread 0|1> <seed>
 * Every slot of every record protects a distinct node (R*K protected nodes); the same number of
 * unprotected nodes is mixed in; record 0 retires ALL of them (protected and unprotected, in a
 * shuffled order; the scan runs inside hazard_pointer_free whenever the threshold is reached)
 * and finally scans explicitly.  Oracles (status ORACLE, note `ORACLE ...`):
 *   - a protected node reached the reclamation callback (every slot index of every record is
 *     covered, also the last one of an odd K and those beyond 65535 live hazard pointers),
 *   - an unprotected node is still not reclaimed after the final scan (garbage bound),
 *   - a node was reclaimed twice.
 * Then all slots are released and one more scan must reclaim everything.
 * spread = 1 places the nodes in a 6 GiB MAP_NORESERVE pool at pseudo-random offsets, so pointer
 * differences exceed 2^31 and 2^32 (order of the sorted snapshot versus the binary search). */
#include <stdint.h>
#include <sys/mman.h>

#include "common.h"
#include "hazard_pointer.c"

typedef struct { hazard_node_t hn; int prot; int reclaimed; } node_t;

static uint64_t rng_s;
static uint64_t rnd(void) { rng_s ^= rng_s << 13; rng_s ^= rng_s >> 7; rng_s ^= rng_s << 17; return rng_s; }
static long bad;

static void gc(void* d, hazard_node_t* hn) {
  (void)d;
  node_t* n = (node_t*)hn;
  if (n->reclaimed++) { vr_note("ORACLE reclaimed-twice"); bad++; }
  if (n->prot == 1) { if (bad < 5) vr_note("ORACLE protected-reclaim node %p", (void*)n); bad++; }
}

int main(int argc, char** argv) {
  if (argc < 5) return 2;
  const long R = atol(argv[1]), K = atol(argv[2]);
  const int spread = atoi(argv[3]);
  rng_s = strtoull(argv[4], 0, 10) * 2654435761u + 88172645463325252ull;
  const long P = R * K, T = 2 * P;
  vr_note("init hpscale %ld %ld %d", R, K, spread);
  node_t** nodes = calloc(T, sizeof *nodes);
  if (spread) {
    const size_t pool = (size_t)6 << 30;
    char* base = mmap(0, pool, PROT_READ | PROT_WRITE, MAP_PRIVATE | MAP_ANONYMOUS | MAP_NORESERVE, -1, 0);
    if (base == MAP_FAILED) vr_finish("NOMEM");
    /* distinct 64-byte cells at pseudo-random offsets (collisions re-drawn via a touched flag) */
    for (long i = 0; i < T; i++) {
      node_t* n;
      do n = (node_t*)(base + ((rnd() % (pool / 64)) * 64)); while (n->hn.gc_function);
      n->hn.gc_function = gc;
      nodes[i] = n;
    }
  } else {
    node_t* arr = calloc(T, sizeof *arr);
    for (long i = 0; i < T; i++) { nodes[i] = &arr[i]; arr[i].hn.gc_function = gc; }
  }
  for (long i = T - 1; i > 0; i--) { long j = rnd() % (i + 1); node_t* t = nodes[i]; nodes[i] = nodes[j]; nodes[j] = t; }
  _Atomic(hazard_pointer_thread_record_t*) head = NULL;
  hazard_pointer_thread_record_t** rec = calloc(R, sizeof *rec);
  for (long r = 0; r < R; r++) rec[r] = hazard_pointer_thread_record_create_and_push(&head, K);
  /* the first P nodes (after the shuffle: arbitrary addresses) are protected, one per slot */
  for (long i = 0; i < P; i++) {
    nodes[i]->prot = 1;
    hazard_pointer_using(rec[i / K], &nodes[i]->hn, i % K);
  }
  /* retire everything through record 0 in another shuffled order */
  long* order = calloc(T, sizeof *order);
  for (long i = 0; i < T; i++) order[i] = i;
  for (long i = T - 1; i > 0; i--) { long j = rnd() % (i + 1); long t = order[i]; order[i] = order[j]; order[j] = t; }
  for (long i = 0; i < T; i++) hazard_pointer_free(rec[0], &nodes[order[i]]->hn);
  hazard_pointer_scan(rec[0]);
  long left = 0;
  for (long i = P; i < T; i++) left += !nodes[i]->reclaimed;
  if (left) { vr_note("ORACLE unprotected-not-reclaimed %ld of %ld", left, P); bad++; }
  for (long i = 0; i < P; i++) { nodes[i]->prot = 2; hazard_pointer_done_using(rec[i / K], i % K); }
  hazard_pointer_scan(rec[0]);
  left = 0;
  for (long i = 0; i < T; i++) left += nodes[i]->reclaimed != 1;
  if (left) { vr_note("ORACLE not-reclaimed-exactly-once-at-the-end %ld of %ld", left, T); bad++; }
  vr_note("done protected %ld unprotected %ld bad %ld", P, P, bad);
  vr_finish(bad ? "ORACLE" : "OK");
}
