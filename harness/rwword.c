/* rwword.c — word-function conformance harness for src/fiber_rwlock.c (C07, second part).
 * usage: rwword <kernel threads> '<op>:<blob>'   (one fiber, one operation)
 * The state word is set to an ARBITRARY value (reachable or not) and one operation is run on
 * it; the log's `r rw` / `cas rw` pair is checked against the Lean model's lockNew / tryNew /
 * unlockNew (the pure bit-field computations the theorems are about), including branches
 * that no reachable state exercises.  Operations that then wait or hand off find nobody to
 * wake them / nobody to pop: the run ends HANG or BUDGET, which is expected here.
 * ops: r rdlock, w wrlock, R tryrdlock, W trywrlock, u rdunlock, U wrunlock */
#include "rtcommon.h"
#include "fiber_rwlock.h"

static fiber_rwlock_t rw;

static void do_op(int t, const char* op) {
  (void)t;
  unsigned long long blob = strtoull(op + 2, NULL, 10);
  rw.state.blob = blob;
  vr_note("word %c %llu", op[0], blob);
  int r = 0;
  switch (op[0]) {
    case 'r': r = fiber_rwlock_rdlock(&rw); break;
    case 'w': r = fiber_rwlock_wrlock(&rw); break;
    case 'R': r = fiber_rwlock_tryrdlock(&rw); break;
    case 'W': r = fiber_rwlock_trywrlock(&rw); break;
    case 'u': r = fiber_rwlock_rdunlock(&rw); break;
    case 'U': r = fiber_rwlock_wrunlock(&rw); break;
  }
  vr_note("ret %c %d", op[0], r == FIBER_SUCCESS);
}

VH_NOINSTR int main(int argc, char** argv) {
  if (argc < 3) return 2;
  int k = atoi(argv[1]);
  vh_parse(argv[2]);
  fiber_manager_init(k);
  fiber_rwlock_init(&rw);
  vr_reg(&rw.state.blob, 8, "rw");
  vr_reg((void*)&rw.read_waiters.head, 8, "RH");
  vr_reg(&rw.read_waiters.tail, 8, "RT");
  vr_obj(rw.read_waiters.tail, sizeof(mpsc_fifo_node_t), "RS");
  vr_reg((void*)&rw.read_waiters.tail->next, 8, "RS.next");
  vr_reg(&rw.read_waiters.tail->data, 8, "RS.data");
  vr_reg((void*)&rw.write_waiters.head, 8, "WH");
  vr_reg(&rw.write_waiters.tail, 8, "WT");
  vr_obj(rw.write_waiters.tail, sizeof(mpsc_fifo_node_t), "WS");
  vr_reg((void*)&rw.write_waiters.tail->next, 8, "WS.next");
  vr_reg(&rw.write_waiters.tail->data, 8, "WS.data");
  vr_note("init rwword %d", k);
  vh_rt_run(k, do_op, 0);
  vr_finish("OK");
}
