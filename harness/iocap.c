/* iocap.c — scale / unusual-argument harness for the descriptor shims (C08: "for every valid
 * descriptor", "returns what the plain call may return").  The access-level harness (io.c) works
 * on small descriptor numbers and integer-valued fcntl commands; this one runs the REAL shims
 *   usage: iocap high   descriptors at the TOP of the descriptor range (up to the RLIMIT_NOFILE hard
 *                       limit - 1; the lower numbers are occupied by placeholders first): a fiber parks in read() on each, a message is
 *                       written to its peer, every reader must get exactly its message; then
 *                       close() through the shim.  (Per-descriptor tables sized or indexed wrongly
 *                       only fail far from descriptor 0.)
 *          iocap ptr    fcntl commands whose third argument is a POINTER (F_GETLK, F_SETOWN_EX /
 *                       F_GETOWN_EX) issued through the shim from a fiber, compared with the raw
 *                       system call on the same descriptor: same return value, same errno, same
 *                       data written back.
 * Statuses: OK, ORACLE (note `ORACLE ...`), SKIP (limits could not be raised). */
#define _GNU_SOURCE
#include <errno.h>
#include <fcntl.h>
#include <sys/resource.h>
#include <sys/socket.h>
#include <sys/syscall.h>
#include <unistd.h>

#include "rtcommon.h"

/* (the force-included runtime header pulled in <fcntl.h> before _GNU_SOURCE could take effect) */
#ifndef F_SETOWN_EX
#define F_SETOWN_EX 15
#define F_GETOWN_EX 16
#define F_OWNER_PID 1
struct f_owner_ex { int type; pid_t pid; };
#endif

#define NP 6
static int rd[NP], wr[NP];
static volatile int got[NP];
static long bad;

static void* reader(void* arg) {
  const int i = (int)(long)arg;
  char buf[32] = {0};
  ssize_t n = read(rd[i], buf, sizeof buf - 1);
  if (n != 6 || buf[0] != 'm' || buf[1] != (char)('0' + i)) {
    vr_note("ORACLE high-descriptor read on fd %d returned %zd errno %d data %.8s", rd[i], n, errno, buf);
    bad++;
  }
  got[i] = 1;
  return NULL;
}

static void* ptr_fiber(void* arg) {
  (void)arg;
  int sp[2], pp[2];
  if (socketpair(AF_UNIX, SOCK_STREAM, 0, sp) || pipe(pp)) { vr_note("ORACLE setup failed"); bad++; return NULL; }
  struct f_owner_ex ox = {F_OWNER_PID, getpid()}, o1 = {0, 0}, o2 = {0, 0};
  errno = 0;
  int a = fcntl(sp[0], F_SETOWN_EX, &ox);
  int ea = errno;
  errno = 0;
  int b = fcntl(sp[0], F_GETOWN_EX, &o1);
  int eb = errno;
  errno = 0;
  long c = syscall(SYS_fcntl, sp[0], F_GETOWN_EX, &o2);
  int ec = errno;
  if (a != 0 || b != c || eb != ec || o1.type != o2.type || o1.pid != o2.pid || o1.pid != getpid()) {
    vr_note("ORACLE fcntl F_SETOWN_EX/F_GETOWN_EX through the shim: set %d/%d get %d/%d pid %d, raw get %ld/%d pid %d", a, ea, b, eb, o1.pid, c, ec, o2.pid);
    bad++;
  }
  struct flock f1 = {.l_type = F_WRLCK, .l_whence = SEEK_SET}, f2 = f1;
  errno = 0;
  int d = fcntl(pp[0], F_GETLK, &f1);
  int ed = errno;
  errno = 0;
  long e = syscall(SYS_fcntl, pp[0], F_GETLK, &f2);
  int ee = errno;
  if (d != e || ed != ee || f1.l_type != f2.l_type) {
    vr_note("ORACLE fcntl F_GETLK through the shim returned %d/%d type %d, raw %ld/%d type %d", d, ed, f1.l_type, e, ee, f2.l_type);
    bad++;
  }
  close(sp[0]); close(sp[1]); close(pp[0]); close(pp[1]);
  return NULL;
}

VH_NOINSTR int main(int argc, char** argv) {
  if (argc < 2) return 2;
  struct rlimit rl;
  if (getrlimit(RLIMIT_NOFILE, &rl)) vr_finish("SKIP");
  rl.rlim_cur = rl.rlim_max;
  if (setrlimit(RLIMIT_NOFILE, &rl)) vr_finish("SKIP");
  fiber_manager_init(2);
  vr_note("init iocap %s %llu", argv[1], (unsigned long long)rl.rlim_max);
  if (argv[1][0] == 'p') {
    fiber_t* f = fiber_create(65536, ptr_fiber, NULL);
    fiber_join(f, NULL);
  } else {
    /* fill the descriptor table with placeholders so that the socketpairs created next (through
     * the shims, which is what makes a descriptor a managed one) land at the top of the range */
    const int want = (int)rl.rlim_max - 2 * NP - 1;
    for (;;) {
      int d = dup(0);
      if (d < 0) vr_finish("SKIP");
      if (d >= want - 1) break;
    }
    for (int i = 0; i < NP; i++) {
      int sp[2];
      if (socketpair(AF_UNIX, SOCK_STREAM, 0, sp)) { vr_note("socketpair failed at %d errno %d", i, errno); vr_finish("SKIP"); }
      rd[i] = sp[0];
      wr[i] = sp[1];
    }
    vr_note("descriptors %d .. %d", rd[0], wr[NP - 1]);
    fiber_t* f[NP];
    for (int i = 0; i < NP; i++) f[i] = fiber_create(65536, reader, (void*)(long)i);
    for (int k = 0; k < 50; k++) fiber_yield();
    for (int i = NP - 1; i >= 0; i--) {
      char msg[8] = {'m', (char)('0' + i), 's', 'g', '!', '\n', 0};
      if (write(wr[i], msg, 6) != 6) { vr_note("ORACLE write to high descriptor %d failed errno %d", wr[i], errno); bad++; }
    }
    for (int i = 0; i < NP; i++) fiber_join(f[i], NULL);
    for (int i = 0; i < NP; i++) { close(rd[i]); close(wr[i]); }
  }
  vr_note("done bad %ld", bad);
  vr_set_done();
  vr_finish(bad ? "ORACLE" : "OK");
}
