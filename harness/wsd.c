/* wsd.c — correspondence harness for src/work_stealing_deque.c (C02, part wsd).
 * usage: wsd <initial log2 size> <script>
 * script thread 0 is THE owner (ops: p<v> = push_bottom(v), o = pop_bottom); every other
 * thread is a thief (op: s = steal).  Values are distinct positive integers.
 *
 * The real file is compiled textually unchanged as part of this translation unit.  The one
 * thing the harness needs from inside it is the address of every array generation at the
 * moment it is allocated (the grow happens in the middle of push_bottom, and thieves may
 * read the new array as soon as `underlying_array` is published, i.e. before push_bottom
 * returns): `malloc` is therefore routed, for this file only, through vh_malloc, which
 * allocates, zero-fills (so that a thief's read of a never-written slot is deterministic)
 * and registers the generation's data slots as cells `a<gen>_<i>` and the array object as
 * `arr<gen>`.  Consequence: the element copy inside wsd_circular_array_grow is logged as
 * ordinary plain reads of the old generation / plain writes of the new one, and the model
 * steps through the copy one access at a time (nothing about growth is assumed).
 * The deque itself is built by hand (wsd_work_stealing_deque_create hard-codes log size 8)
 * from the public wsd_circular_array_create so the growth boundary is crossed after a few
 * pushes. */
#include <stdlib.h>

#include "common.h"

static void* vh_malloc(size_t n);
static void vh_free(void* p);
#define malloc(n) vh_malloc(n)
#define free(p) vh_free(p)
#include "work_stealing_deque.c"
#undef malloc
#undef free

static int ngen;

static void* vh_malloc(size_t n) {
  void* p = calloc(1, n);
  if (!p) return p;
  if (n > sizeof(wsd_circular_array_t)) {
    wsd_circular_array_t* a = (wsd_circular_array_t*)p;
    size_t slots = (n - sizeof(wsd_circular_array_t)) / sizeof(wsd_circular_array_elem_t);
    int g = ngen++;
    vr_obj(a, n, "arr%d", g);
    for (size_t i = 0; i < slots; i++) vr_reg(&a->data[i].data, 8, "a%d_%zu", g, i);
  }
  return p;
}

/* The algorithm relies on retired array generations outliving slow thieves (the code keeps
 * them on the `prev` chain until the deque is destroyed).  A generation released while the
 * deque is in use is poisoned and reported; the memory itself is kept so that a late reader
 * sees the poison instead of crashing somewhere unrelated. */
__attribute__((no_sanitize_thread)) static void vh_free(void* p) {
  if (!p) return;
  wsd_circular_array_t* a = (wsd_circular_array_t*)p;
  vr_note("ORACLE array-freed-in-use %p size %zu", p, a->size);
  for (size_t i = 0; i < a->size; i++) a->data[i].data = (void*)0x5a5a5a5aL;
}

static wsd_work_stealing_deque_t* d;

static void result(const char* op, void* r) {
  /* value, -1 = WSD_EMPTY, -2 = WSD_ABORT */
  vr_note("ret %s %ld", op, (long)r);
}

static void do_op(int t, const char* op) {
  if (op[0] == 'p' && t == 0) {
    long v = atol(op + 1);
    vr_note("call push %ld", v);
    wsd_work_stealing_deque_push_bottom(d, (void*)v);
    vr_note("ret push 1");
  } else if (op[0] == 'o' && t == 0) {
    vr_note("call pop");
    result("pop", wsd_work_stealing_deque_pop_bottom(d));
  } else if (op[0] == 's' && t != 0) {
    vr_note("call steal");
    result("steal", wsd_work_stealing_deque_steal(d));
  } else {
    fprintf(stderr, "bad op %s for thread %d\n", op, t);
    exit(2);
  }
}

int main(int argc, char** argv) {
  if (argc < 3) return 2;
  int k = atoi(argv[1]);
  vh_parse(argv[2]);
  d = (wsd_work_stealing_deque_t*)calloc(1, sizeof *d);
  /* optional start index (multiple of every array size): a run queue that has already seen
   * that many fibers; crosses the 2^31 / 2^32 boundaries of the monotone indices */
  long long base = argc > 3 ? atoll(argv[3]) : 0;
  d->top = base;
  d->bottom = base;
  d->underlying_array = wsd_circular_array_create(k);
  vr_reg(&d->top, 8, "top");
  vr_reg(&d->bottom, 8, "bottom");
  vr_reg(&d->underlying_array, 8, "underlying_array");
  vr_note("init wsd %d %lld", k, base);
  vh_run(do_op);
  /* drain single-threaded by the owner so "lost item" is decidable */
  for (;;) {
    vr_note("call pop");
    void* r = wsd_work_stealing_deque_pop_bottom(d);
    result("pop", r);
    if (r == WSD_EMPTY) break;
  }
  vr_finish("OK");
}
