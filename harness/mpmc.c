/* mpmc.c — correspondence harness for include/mpmc_fifo.h (C13), with the real
 * hazard-pointer code (src/hazard_pointer.c) doing the reclamation.
 *
 * usage: mpmc <pool nodes> <scan every k-th successful pop (0 = never)> <script> [d]
 *   with `d` the run ends with mpmc_fifo_destroy on whatever is still queued (teardown with
 *   items left: every queued node is retired, a retirement may reach the threshold and scan in
 *   the middle of the walk) followed by a scan of every record; every node must then be back
 *   in the pool (status LEAK otherwise).  Without `d` the queue is drained by pops.
 * ops: p<v> = push(v) (skipped with `note skip push` when no free node is available),
 *      o    = trypop,
 *      g    = explicit hazard_pointer_scan on the thread's own record,
 *      J    = (first op of a thread only) the thread creates and publishes its hazard record
 *             when it starts running instead of before the run.
 *
 * Node pool with a reuse-FIRST policy: the gc callback pushes the reclaimed node on a
 * LIFO free list and the very next push takes its node from there, so a node address
 * re-enters the queue while other threads may still hold it in a local / hazard slot
 * (ABA).  Reclaimed nodes are poisoned until they are reused.
 *
 * Registered cells: head, tail, every node's value/prev/next, every record's two hazard
 * slots.  The scan's private state (retired list, plist) is NOT registered: reclamation
 * shows up in the log only as `note reclaim @n`. */
#include <malloc.h>
#include <stdint.h>
#include <stdlib.h>

#include "common.h"
/* record allocation interposed (`calloc` is a macro while the real file is compiled into this
 * unit) so that a record's `next` link and hazard slots are registered cells BEFORE
 * create_and_push publishes the record: a thread that joins late (op J) races its
 * registration with the scans and pops of the others */
static __thread int cur_thread;
static void vh_register_record(void* p);
static void* vh_calloc(size_t n, size_t sz) {
  void* p = calloc(n, sz);
  vh_register_record(p);
  return p;
}
#define calloc(n, sz) vh_calloc((n), (sz))
#include "hazard_pointer.c"
#undef calloc
#include "mpmc_fifo.h"

#define MAXNODES 16
#define POISON ((void*)0xdead0)

static mpmc_fifo_t fifo;
static _Atomic(hazard_pointer_thread_record_t*) hp_head;
static hazard_pointer_thread_record_t* rec[VH_MAXT];
static mpmc_fifo_node_t* pool;
static int npool;
static int scan_every;
static int pops_ok[VH_MAXT];

/* the free list is harness-private state, only touched while holding the baton between
 * scheduling points (no registered access in between) */
static mpmc_fifo_node_t* freelist[MAXNODES];
static int nfree;

/* poisoning is harness bookkeeping on a node nobody may touch any more: done without
 * instrumentation so it is neither a scheduling point nor a logged access (a later logged
 * read that returns the poison value is then unexplainable by the model = divergence) */
__attribute__((no_sanitize("thread"), noinline)) static void poison(mpmc_fifo_node_t* n) {
  *(void* volatile*)&n->value = POISON;
  *(void* volatile*)&n->prev = POISON;
  *(void* volatile*)&n->next = POISON;
}

static void node_gc(void* gc_data, hazard_node_t* hn) {
  (void)gc_data;
  mpmc_fifo_node_t* n = (mpmc_fifo_node_t*)hn;
  vr_note("reclaim @n%d", (int)(n - pool));
  poison(n);
  freelist[nfree++] = n;
}

static void vh_register_record(void* p) {
  hazard_pointer_thread_record_t* r = p;
  int t = cur_thread;
  vr_reg(&r->next, sizeof r->next, "recnext%d", t);
  for (int k = 0; k < MPMC_HAZARD_COUNT; k++) vr_reg(&r->hazard_pointers[k], 8, "hp%d_%d", t, k);
}

static void join_thread(int t) {
  cur_thread = t;
  rec[t] = hazard_pointer_thread_record_create_and_push(&hp_head, MPMC_HAZARD_COUNT);
}

static void do_op(int t, const char* op) {
  if (!rec[t]) join_thread(t); /* late joiner: its first op (J or anything else) registers it */
  hazard_pointer_thread_record_t* h = rec[t];
  if (op[0] == 'J') return;
  if (op[0] == 'p') {
    long v = atol(op + 1);
    if (nfree == 0) {
      vr_note("skip push %ld", v);
      return;
    }
    mpmc_fifo_node_t* n = freelist[--nfree];
    vr_note("take @n%d", (int)(n - pool));
    n->value = (void*)v;
    vr_note("call push %ld", v);
    mpmc_fifo_push(h, &fifo, n);
    vr_note("ret push 1");
  } else if (op[0] == 'o') {
    vr_note("call pop");
    void* r = mpmc_fifo_trypop(h, &fifo);
    vr_note("ret pop %ld", (long)r);
    if (r && scan_every && (++pops_ok[t] % scan_every) == 0) {
      vr_note("call scan");
      hazard_pointer_scan(h);
      vr_note("ret scan");
    }
  } else if (op[0] == 'g') {
    vr_note("call scan");
    hazard_pointer_scan(h);
    vr_note("ret scan");
  }
}

int main(int argc, char** argv) {
  if (argc < 4) return 2;
  npool = atoi(argv[1]);
  scan_every = atoi(argv[2]);
  vh_parse(argv[3]);
  if (npool < 2 || npool > MAXNODES) return 2;
  pool = (mpmc_fifo_node_t*)calloc(npool, sizeof(*pool));
  for (int i = 0; i < npool; i++) {
    pool[i].hazard.gc_function = node_gc;
    vr_obj(&pool[i], sizeof(pool[i]), "n%d", i);
  }
  /* one hazard record per script thread, K = MPMC_HAZARD_COUNT; created up front unless the
   * thread's script starts with J (then it registers itself when it starts running) */
  vr_reg(&hp_head, sizeof hp_head, "hphead");
  for (int t = 0; t < vh_script.nthreads; t++)
    if (vh_script.nops[t] == 0 || vh_script.ops[t][0][0] != 'J') join_thread(t);
  /* the dummy node handed to init is, in the library's own use (fiber_semaphore_init takes it
   * from the manager's node pool), a RECYCLED node: it still carries the links and value of
   * its previous life.  init must not rely on it being clean. */
  pool[0].prev = &pool[1];
  pool[0].next = &pool[1];
  pool[0].value = (void*)77;
  pool[1].value = (void*)78;
  __asm__ __volatile__("" : : "r"(pool) : "memory");
  VH_DIRTY(fifo);
  mpmc_fifo_init(&fifo, &pool[0]);
  for (int i = npool - 1; i >= 1; i--) {
    poison(&pool[i]);
    freelist[nfree++] = &pool[i];
  }
  vr_reg(&fifo.head, 8, "head");
  vr_reg(&fifo.tail, 8, "tail");
  for (int i = 0; i < npool; i++) {
    vr_reg(&pool[i].value, 8, "n%d.value", i);
    vr_reg(&pool[i].prev, 8, "n%d.prev", i);
    vr_reg(&pool[i].next, 8, "n%d.next", i);
  }
  const int destroy_mode = argc > 4 && argv[4][0] == 'd';
  vr_note("init mpmc %d %d%s", npool, vh_script.nthreads, destroy_mode ? " destroy" : "");
  vh_run(do_op);
  if (destroy_mode) {
    if (!rec[0]) join_thread(0);
    vr_note("call destroy");
    mpmc_fifo_destroy(rec[0], &fifo);
    vr_note("ret destroy");
    /* a trypop that published slot 1, lost the race and then found the queue empty returns
     * with slot 1 still naming a node (bounded: one node per thread, overwritten by its next
     * pop): release everything first, as a thread leaving the structure would */
    for (int t = 0; t < vh_script.nthreads; t++)
      for (int k = 0; rec[t] && k < MPMC_HAZARD_COUNT; k++) hazard_pointer_done_using(rec[t], k);
    for (int t = 0; t < vh_script.nthreads; t++)
      if (rec[t]) hazard_pointer_scan(rec[t]);
    vr_note("pool %d %d", nfree, npool);
    vr_finish(nfree == npool ? "OK" : "LEAK");
  }
  /* drain single-threaded so the monitor can tell a lost item from a queued one */
  for (;;) {
    vr_note("call pop");
    if (!rec[0]) join_thread(0);
    void* r = mpmc_fifo_trypop(rec[0], &fifo);
    vr_note("ret pop %ld", (long)r);
    if (!r) break;
  }
  vr_finish("OK");
}
