/* wrap_io.h — interface of the unity wrappers wrap_io.c / wrap_event_native.c (C08) */
#ifndef VW_WRAP_IO_H
#define VW_WRAP_IO_H
#include <sys/socket.h>
#include <sys/types.h>
#include <sys/uio.h>

typedef struct vw_io_hooks {
  ssize_t (*read)(int, void*, size_t);
  ssize_t (*readv)(int, const struct iovec*, int);
  ssize_t (*write)(int, const void*, size_t);
  ssize_t (*writev)(int, const struct iovec*, int);
  int (*socket)(int, int, int);
  int (*socketpair)(int, int, int, int[2]);
  int (*accept)(int, struct sockaddr*, socklen_t*);
  ssize_t (*send)(int, const void*, size_t, int);
  ssize_t (*sendto)(int, const void*, size_t, int, const struct sockaddr*, socklen_t);
  ssize_t (*sendmsg)(int, const struct msghdr*, int);
  ssize_t (*recvfrom)(int, void*, size_t, int, struct sockaddr*, socklen_t*);
  ssize_t (*recv)(int, void*, size_t, int);
  ssize_t (*recvmsg)(int, struct msghdr*, int);
  int (*connect)(int, const struct sockaddr*, socklen_t);
  int (*pipe)(int[2]);
  int (*fcntl)(int, int, ...);
  int (*ioctl)(int, unsigned long, ...);
  int (*close)(int);
} vw_io_hooks_t;

void vw_io_hook(const vw_io_hooks_t* h, vw_io_hooks_t* old);
void* vw_fd_info_base(void);
unsigned long vw_fd_info_stride(void);
unsigned long vw_io_max_fd(void);
int vw_io_thread_locked(void);
int vw_io_flag_blocking(void);
int vw_io_flag_waitable(void);

void* vw_wait_info_base(void);
unsigned long vw_wait_info_stride(void);
unsigned long vw_wait_info_off_events(void);
unsigned long vw_wait_info_off_added(void);
unsigned long vw_wait_info_off_spinlock(void);
unsigned long vw_wait_info_off_waiters(void);
long vw_event_max_fd(void);
int vw_event_fd(void);
int vw_timer_fd(void);
#endif
