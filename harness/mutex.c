/* mutex.c — correspondence harness for src/fiber_mutex.c (C03).
 * usage: mutex <kernel threads> <script>; ops: l lock, t trylock, u unlock, y yield */
/* crowds: more simultaneous lockers than 127 / 255 (widths of locals and fields) */
#define VH_MAXF 400
#include "rtcommon.h"
#include "fiber_mutex.h"

static fiber_mutex_t mtx;
static volatile long shared; /* protected data */
static int holding[VH_MAXF];

static void cs(int t) {
  vr_note("cs enter %d", t);
  long v = shared;
  fiber_yield();
  shared = v + 1;
  vr_note("cs exit %d %ld", t, v + 1);
}

static void do_op(int t, const char* op) {
  switch (op[0]) {
    case 'l':
      vr_note("call lock");
      fiber_mutex_lock(&mtx);
      vr_note("ret lock");
      holding[t] = 1;
      cs(t);
      break;
    case 't': {
      vr_note("call trylock");
      int r = fiber_mutex_trylock(&mtx);
      vr_note("ret trylock %d", r == FIBER_SUCCESS);
      if (r == FIBER_SUCCESS) {
        holding[t] = 1;
        cs(t);
      }
      break;
    }
    case 'u':
      if (holding[t]) {
        holding[t] = 0;
        vr_note("call unlock");
        fiber_mutex_unlock(&mtx);
        vr_note("ret unlock");
      }
      break;
    case 'y':
      fiber_yield();
      break;
  }
}

VH_NOINSTR int main(int argc, char** argv) {
  if (argc < 3) return 2;
  int k = atoi(argv[1]);
  vh_parse(argv[2]);
  fiber_manager_init(k);
  VH_DIRTY(mtx);
  fiber_mutex_init(&mtx);
  vr_reg(&mtx.counter, sizeof mtx.counter, "counter");
  vr_reg((void*)&mtx.waiters.head, 8, "head");
  vr_reg(&mtx.waiters.tail, 8, "tail");
  vr_obj(mtx.waiters.tail, sizeof(mpsc_fifo_node_t), "S");
  vr_reg((void*)&mtx.waiters.tail->next, 8, "S.next");
  vr_reg(&mtx.waiters.tail->data, 8, "S.data");
  vr_note("init mutex %d", k);
  vh_rt_run(k, do_op, 0);
  vr_finish("OK");
}
