/* join.c — correspondence harness for fiber_join / fiber_tryjoin / fiber_detach /
 * fiber_mark_completed (src/fiber.c) and the pieces of src/fiber_manager.c they use
 * (set_and_wait, clear_or_wait, the deferred `set_wait_location` store and `done_fiber`
 * destruction in fiber_manager_do_maintenance) — property C04.
 *
 * usage: join <kernel threads> <target yields, e.g. 2,0,1> <actor script>
 *
 *   targets : one fiber per entry of <target yields>; target i yields that many times, logs
 *             `target <i> returns <1000+i>` and returns (void*)(1000+i).  Targets are NOT
 *             detached by the harness.
 *   actors  : one fiber per '|'-separated op list; ops  j<i> join target i, t<i> tryjoin,
 *             d<i> detach, y yield;  J<i> = fiber_join(target i, NULL), T<i> =
 *             fiber_tryjoin(target i, NULL): logged as `call joinn <i>` / `ret joinn <i> <ok>`
 *             (`tryjoinn`), no value field (none is observed).  With a NULL result pointer
 *             the code skips its reads of the result cells but a joiner that had to wait still
 *             clears its own hand-over slot (`current_fiber->result = NULL`): the actors'
 *             `result` cells are registered (reg), so the write or its absence is in the log.
 *   reaper  : one more fiber, scheduled by main once every actor has finished; it joins every
 *             target that has neither been joined successfully nor been detached.
 *
 * Fiber ids in the log: targets 16.., actors 16+T.., reaper 16+T+A (all created up front).
 *
 * Client contract (the handle must still be valid): `retired[i]` is set when a join/tryjoin on
 * target i returned SUCCESS or a detach on i returned; it is checked right before each call is
 * issued (no scheduling point in between) and a retired target's op is skipped
 * (`skip <op> <i>`).  Calls ISSUED before that point may overlap freely.
 *
 * Destruction: `free` is interposed for the targets' fiber_t and mpsc node only: they are
 * quarantined (never handed back to the allocator, cells stay registered), so a late access
 * is harmless here and visible in the log; the count lets main wait for the destruction.
 */
#include "rtcommon.h"

#define MAXTG 8
static int ntargets, nactors;
static int tyields[MAXTG];
static fiber_t* targets[MAXTG];
static void* tnodes[MAXTG];
static volatile int tfreed[MAXTG], nfreed[MAXTG];
static volatile int retired[MAXTG];
static volatile int actors_done, reaper_done;
static fiber_t* actors[VH_MAXF];
static fiber_t* reaper;

extern void __libc_free(void*);
VH_NOINSTR __attribute__((no_split_stack)) void free(void* p) {
  if (p)
    for (int i = 0; i < ntargets; i++) {
      if (p == (void*)targets[i]) { tfreed[i]++; return; }
      if (p == tnodes[i]) { nfreed[i]++; return; }
    }
  __libc_free(p);
}

static void* target_main(void* arg) {
  int i = (int)(long)arg;
  vr_note("target %d start", i);
  for (int y = 0; y < tyields[i]; y++) fiber_yield();
  vr_note("target %d returns %d", i, 1000 + i);
  return (void*)(long)(1000 + i);
}

static void do_op(const char* op) {
  int i = atoi(op + 1);
  if (op[0] == 'y') {
    fiber_yield();
    return;
  }
  if (i < 0 || i >= ntargets) return;
  const char* nm = op[0] == 'j' ? "join" : op[0] == 't' ? "tryjoin" : op[0] == 'J' ? "joinn" : op[0] == 'T' ? "tryjoinn" : "detach";
  if (retired[i] || tfreed[i]) { /* the handle is known to be invalid: do not issue */
    vr_note("skip %s %d", nm, i);
    return;
  }
  vr_note("call %s %d", nm, i);
  if (op[0] == 'd') {
    int rc = fiber_detach(targets[i]);
    vr_note("ret detach %d %d", i, rc == FIBER_SUCCESS);
    retired[i] = 1;
  } else if (op[0] == 'J' || op[0] == 'T') { /* NULL result pointer: no value is observed */
    int rc = op[0] == 'J' ? fiber_join(targets[i], NULL) : fiber_tryjoin(targets[i], NULL);
    vr_note("ret %s %d %d", nm, i, rc == FIBER_SUCCESS);
    if (rc == FIBER_SUCCESS) retired[i] = 1;
  } else {
    void* res = (void*)7;
    int rc = op[0] == 'j' ? fiber_join(targets[i], &res) : fiber_tryjoin(targets[i], &res);
    vr_note("ret %s %d %d %ld", nm, i, rc == FIBER_SUCCESS, (long)res);
    if (rc == FIBER_SUCCESS) retired[i] = 1;
  }
}

static void* actor_main(void* arg) {
  int a = (int)(long)arg;
  for (int k = 0; k < vh_script.nops[a]; k++) do_op(vh_script.ops[a][k]);
  __sync_fetch_and_add(&actors_done, 1);
  vr_note("returns 0");
  return NULL;
}

static void* reaper_main(void* arg) {
  (void)arg;
  char op[8];
  for (int i = 0; i < ntargets; i++) {
    snprintf(op, sizeof op, "j%d", i);
    do_op(op);
  }
  reaper_done = 1;
  vr_note("returns 0");
  return NULL;
}

VH_NOINSTR static void reg(fiber_t* f) {
  int id = vh_fid(f);
  vh_reg_fiber(f, 0);
  vr_reg((void*)&f->detach_state, sizeof f->detach_state, "F%d.detach", id);
  vr_reg((void*)&f->join_info, 8, "F%d.join_info", id);
  vr_reg((void*)&f->result, 8, "F%d.result", id);
}

VH_NOINSTR static int all_freed(void) {
  for (int i = 0; i < ntargets; i++)
    if (!tfreed[i]) return 0;
  return 1;
}

VH_NOINSTR int main(int argc, char** argv) {
  if (argc < 4) return 2;
  int k = atoi(argv[1]);
  char* ty = strdup(argv[2]);
  for (char* p = strtok(ty, ","); p && ntargets < MAXTG; p = strtok(NULL, ",")) tyields[ntargets++] = atoi(p);
  vh_parse(argv[3]);
  nactors = vh_script.nfibers;
  fiber_manager_init(k);
  vh_rt_prepare(); /* run queues named, main fiber registered: the runtime model can follow this log too */
  for (int i = 0; i < ntargets; i++) {
    targets[i] = fiber_create_no_sched(65536, target_main, (void*)(long)i);
    tnodes[i] = targets[i]->mpsc_fifo_node;
    if (vh_fid(targets[i]) != 16 + i) vr_finish("IDMISMATCH");
    reg(targets[i]);
  }
  for (int a = 0; a < nactors; a++) {
    actors[a] = fiber_create_no_sched(65536, actor_main, (void*)(long)a);
    if (vh_fid(actors[a]) != 16 + ntargets + a) vr_finish("IDMISMATCH");
    fiber_detach(actors[a]); /* before registration: not part of the log */
    reg(actors[a]);
  }
  reaper = fiber_create_no_sched(65536, reaper_main, NULL);
  if (vh_fid(reaper) != 16 + ntargets + nactors) vr_finish("IDMISMATCH");
  fiber_detach(reaper);
  reg(reaper);
  vr_note("init join %d %d %d", k, ntargets, nactors);
  vr_note("spawn %d", ntargets + nactors + 1); /* for the runtime model: all harness fibers exist now */
  /* interleave the scheduling order a little: actors and targets alternate */
  for (int i = 0; i < ntargets || i < nactors; i++) {
    if (i < nactors) fiber_manager_schedule(fiber_manager_get(), actors[i]);
    if (i < ntargets) fiber_manager_schedule(fiber_manager_get(), targets[i]);
  }
  long polls = 0;
  while (actors_done < nactors) {
    fiber_yield();
    vr_relax();
    if (++polls > 4000) vr_finish("STRANDED");
  }
  vr_note("reap");
  fiber_manager_schedule(fiber_manager_get(), reaper);
  while (!reaper_done || !all_freed()) {
    fiber_yield();
    vr_relax();
    if (++polls > 8000) vr_finish("STRANDED");
  }
  vr_set_done();
  vr_finish("OK");
}
