/* ctx.c — differential + bounds harness for property C19 (context switch).
 *
 * NOT TSan-instrumented and not linked with rt/: this is a plain / ASan+UBSan build of the
 * REAL /repo/src/fiber_context.c, one executable per (stack strategy, switching back-end):
 *   -DFIBER_STACK_MALLOC | -DFIBER_STACK_MMAP | -DFIBER_STACK_SPLIT -fsplit-stack
 *   with / without -DFIBER_FAST_SWITCHING (assembly / ucontext)
 * fiber_context.c is compiled with -Dmalloc=vh_malloc -Dfree=vh_free -Dmmap=vh_mmap
 * -Dmunmap=vh_munmap -D__splitstack_makecontext=vh_ss_make
 * -D__splitstack_releasecontext=vh_ss_release (no source edits) so that every allocation /
 * release the library performs is counted here.
 *
 * usage: ctx <nfibers> <requested stack size> <nhops> <xthread 0|1> <churn 0|1>
 * env  : VR_SEED (all randomness), VR_LOG (log file; ends with "# status <S>")
 *
 * What is checked (any failure = a line `... note ORACLE <name> ...` and status ORACLE):
 *  - fresh context: run function entered with rdi == param (random 64-bit token),
 *    rsp % 16 == 8 at entry, rsp inside the context's own stack, stacks of live contexts
 *    pairwise disjoint, (assembly back-end) initial frame inside [ctx_stack, +size)
 *  - every switch plants random values in rbx rbp r12 r13 r14 r15 immediately before
 *    fiber_context_swap and reads them back immediately after it returns (pure asm, no
 *    compiler in between); rsp before/after; 8 stack canaries per suspended frame
 *  - random switch sequences: A->B->A, chains over k contexts, switching into fresh
 *    contexts, contexts suspended on one kernel thread and resumed on another
 *  - every stack is allocated once per init and released exactly once per destroy
 *    (malloc/free, mmap/munmap, __splitstack_makecontext/__splitstack_releasecontext
 *    counted), thread contexts release no stack, nothing is live at the end
 *  - ASan/UBSan (malloc, mmap builds): any report is turned into `ORACLE asan ...`
 */
#define _GNU_SOURCE
#include <errno.h>
#include <pthread.h>
#include <stdint.h>
#include <stdio.h>
#include <stdlib.h>
#include <string.h>
#include <sys/mman.h>
#include <unistd.h>

#include "fiber_context.h"

#if defined(FIBER_STACK_MALLOC)
#define STRAT "malloc"
#elif defined(FIBER_STACK_MMAP)
#define STRAT "mmap"
#elif defined(FIBER_STACK_SPLIT)
#define STRAT "split"
#else
#error strategy
#endif
#ifdef FIBER_FAST_SWITCHING
#define BACKEND "asm"
#else
#define BACKEND "ucontext"
#endif

#define NOSAN __attribute__((noinline, no_sanitize_address, no_sanitize_undefined))

/* ------------------------------------------------------------------ event records
 * fibers may run on very small stacks: they never call libc, they append records;
 * the thread contexts print them. */
enum { E_HOP = 1, E_ENTRY, E_RESUME, E_ORACLE, E_INIT, E_DESTROY, E_NOTE };
typedef struct { int kind; int tid; int ctx; const char* what; uint64_t a, b, c; } ev_t;
#define MAXEV 200000
static ev_t g_ev[MAXEV];
static volatile int g_nev;
static volatile int g_oracle;
static volatile int g_tid; /* kernel thread currently driving (threads run one after the other) */

NOSAN static void rec(int kind, int ctx, const char* what, uint64_t a, uint64_t b, uint64_t c) {
  int i = g_nev;
  if (i >= MAXEV) return;
  g_ev[i].kind = kind; g_ev[i].tid = g_tid; g_ev[i].ctx = ctx; g_ev[i].what = what;
  g_ev[i].a = a; g_ev[i].b = b; g_ev[i].c = c;
  g_nev = i + 1;
  if (kind == E_ORACLE) g_oracle = g_oracle + 1;
}

static FILE* g_log;
static const char* KIND[] = {"?", "hop", "entry", "resume_ok", "ORACLE", "init", "destroy", "info"};

static void flush_events(void) {
  for (int i = 0; i < g_nev; i++) {
    ev_t* e = &g_ev[i];
    fprintf(g_log, "%d %d ctx note %s %s %llx %llx %llx\n", e->tid, e->ctx, KIND[e->kind], e->what ? e->what : "-",
            (unsigned long long)e->a, (unsigned long long)e->b, (unsigned long long)e->c);
  }
  g_nev = 0;
  fflush(g_log);
}

static void finish(const char* status) {
  flush_events();
  fprintf(g_log, "# status %s\n", status);
  fflush(g_log);
  fclose(g_log);
  _exit(strcmp(status, "OK") == 0 ? 0 : 3);
}

/* ------------------------------------------------------------------ sanitizer hooks */
#if defined(__SANITIZE_ADDRESS__)
#include <sanitizer/asan_interface.h>
const char* __asan_default_options(void) { return "detect_leaks=0:detect_stack_use_after_return=0:abort_on_error=0:handle_segv=1"; }
static void asan_cb(const char* report) {
  /* first line with the headline */
  const char* p = strstr(report, "ERROR: AddressSanitizer");
  char head[400];
  size_t n = 0;
  if (!p) p = report;
  while (p[n] && p[n] != '\n' && n < sizeof head - 1) { head[n] = p[n]; n++; }
  head[n] = 0;
  /* second interesting line: WRITE/READ of size ... and the first frame in fiber_context.c */
  const char* w = strstr(report, " of size ");
  char acc[200] = "";
  if (w) {
    while (w > report && w[-1] != '\n') w--;
    size_t k = 0;
    while (w[k] && w[k] != '\n' && k < sizeof acc - 1) { acc[k] = w[k]; k++; }
    acc[k] = 0;
  }
  const char* f = strstr(report, "fiber_context.c:");
  char loc[80] = "";
  if (f) { size_t k = 0; while (f[k] && f[k] != '\n' && f[k] != ' ' && k < sizeof loc - 1) { loc[k] = f[k]; k++; } loc[k] = 0; }
  if (g_log) {
    flush_events();
    fprintf(g_log, "%d 0 ctx note ORACLE asan %s | %s | %s\n", g_tid, head, acc, loc);
    fprintf(g_log, "# status ORACLE\n");
    fflush(g_log);
  }
}
#endif

/* ------------------------------------------------------------------ allocation accounting */
enum { K_MALLOC = 1, K_MMAP, K_SPLIT };
typedef struct { void* p; size_t n; int kind; int live; int releases; void* key; } alloc_t;
#define MAXALLOC 20000
static alloc_t g_al[MAXALLOC];
static int g_nal;
static int g_allocs[4], g_frees[4];
static int g_release_events; /* bumped on every release call the library makes */

static alloc_t* al_add(void* p, size_t n, int kind, void* key) {
  if (g_nal >= MAXALLOC) { fprintf(stderr, "alloc table full\n"); abort(); }
  alloc_t* a = &g_al[g_nal++];
  a->p = p; a->n = n; a->kind = kind; a->live = 1; a->releases = 0; a->key = key;
  g_allocs[kind]++;
  return a;
}
static alloc_t* al_find_live(void* p, int kind) {
  for (int i = g_nal - 1; i >= 0; i--)
    if (g_al[i].p == p && g_al[i].kind == kind && g_al[i].live) return &g_al[i];
  return NULL;
}
static alloc_t* al_find_any(void* p, int kind) {
  for (int i = g_nal - 1; i >= 0; i--)
    if (g_al[i].p == p && g_al[i].kind == kind) return &g_al[i];
  return NULL;
}

/* requests no allocator can satisfy (beyond the 47-bit user address space): "all requested stack
 * sizes" includes them; the only correct outcome is a clean FIBER_ERROR */
#define ABSURD ((size_t)1 << 48)
static int count_live(void);

void* vh_malloc(size_t n) {
  /* what the C library does for such a request (the sanitizer's allocator would abort instead) */
  if (n >= ABSURD) { errno = ENOMEM; return NULL; }
  void* p = malloc(n);
  if (p) al_add(p, n, K_MALLOC, NULL);
  return p;
}
void vh_free(void* p) {
  g_release_events++;
  g_frees[K_MALLOC]++;
  if (!p) return;
  alloc_t* a = al_find_live(p, K_MALLOC);
  if (!a) {
    a = al_find_any(p, K_MALLOC);
    rec(E_ORACLE, -1, a ? "double_free" : "free_of_unknown_pointer", (uint64_t)p, a ? a->releases : 0, 0);
    if (a) a->releases++;
    return; /* do not hand a bad pointer to the allocator */
  }
  a->live = 0; a->releases++;
  free(p);
}
void* vh_mmap(void* addr, size_t len, int prot, int flags, int fd, off_t off) {
  void* p = mmap(addr, len, prot, flags, fd, off);
  if (p != MAP_FAILED) al_add(p, len, K_MMAP, NULL);
  return p;
}
int vh_munmap(void* p, size_t len) {
  g_release_events++;
  g_frees[K_MMAP]++;
  alloc_t* a = al_find_live(p, K_MMAP);
  if (!a) {
    a = al_find_any(p, K_MMAP);
    rec(E_ORACLE, -1, a ? "double_munmap" : "munmap_of_unknown_mapping", (uint64_t)p, len, 0);
    if (a) a->releases++;
    return -1;
  }
  if (a->n != len) rec(E_ORACLE, -1, "munmap_wrong_length", (uint64_t)p, len, a->n);
  a->live = 0; a->releases++;
  return munmap(p, len);
}
#ifdef FIBER_STACK_SPLIT
extern void* __splitstack_makecontext(size_t, void* ctx[10], size_t*);
extern void __splitstack_releasecontext(void* ctx[10]);
void* vh_ss_make(size_t n, void* ctx[10], size_t* out) {
  void* p = __splitstack_makecontext(n, ctx, out);
  if (p) al_add(p, *out, K_SPLIT, (void*)ctx);
  return p;
}
void vh_ss_release(void* ctx[10]) {
  g_release_events++;
  g_frees[K_SPLIT]++;
  alloc_t* a = NULL;
  for (int i = g_nal - 1; i >= 0; i--)
    if (g_al[i].kind == K_SPLIT && g_al[i].key == (void*)ctx && g_al[i].live) { a = &g_al[i]; break; }
  if (!a) { rec(E_ORACLE, -1, "double_or_unknown_splitstack_release", (uint64_t)ctx, 0, 0); return; }
  a->live = 0; a->releases++;
  __splitstack_releasecontext(ctx);
}
#endif

/* ------------------------------------------------------------------ PRNG */
static uint64_t g_rng;
NOSAN static uint64_t rnd(void) {
  uint64_t x = g_rng;
  x ^= x << 13; x ^= x >> 7; x ^= x << 17;
  g_rng = x;
  return x * 0x2545F4914F6CDD1DULL;
}

/* ------------------------------------------------------------------ the planted switch
 * void swap_planted(fiber_context_t* from, fiber_context_t* to, const uint64_t in[6], uint64_t out[8]);
 * loads rbx rbp r12 r13 r14 r15 from in[], calls fiber_context_swap(from,to), and — when
 * this context is resumed — stores the same six registers to out[0..5], rsp after the call
 * to out[6] (rsp before the call was stored to out[7]). */
void swap_planted(fiber_context_t* from, fiber_context_t* to, const uint64_t* in, uint64_t* out);
__asm__(
    ".text\n"
    ".globl swap_planted\n"
    ".type swap_planted,@function\n"
    "swap_planted:\n\t"
    "pushq %rbx\n\t"
    "pushq %rbp\n\t"
    "pushq %r12\n\t"
    "pushq %r13\n\t"
    "pushq %r14\n\t"
    "pushq %r15\n\t"
    "pushq %rcx\n\t" /* out; rsp is now 16-byte aligned */
    "movq %rsp, 56(%rcx)\n\t"
    "movq 0(%rdx), %rbx\n\t"
    "movq 8(%rdx), %rbp\n\t"
    "movq 16(%rdx), %r12\n\t"
    "movq 24(%rdx), %r13\n\t"
    "movq 32(%rdx), %r14\n\t"
    "movq 40(%rdx), %r15\n\t"
    "call fiber_context_swap@PLT\n\t"
    "movq (%rsp), %rcx\n\t"
    "movq %rbx, 0(%rcx)\n\t"
    "movq %rbp, 8(%rcx)\n\t"
    "movq %r12, 16(%rcx)\n\t"
    "movq %r13, 24(%rcx)\n\t"
    "movq %r14, 32(%rcx)\n\t"
    "movq %r15, 40(%rcx)\n\t"
    "movq %rsp, 48(%rcx)\n\t"
    "addq $8, %rsp\n\t"
    "popq %r15\n\t"
    "popq %r14\n\t"
    "popq %r13\n\t"
    "popq %r12\n\t"
    "popq %rbp\n\t"
    "popq %rbx\n\t"
    "ret\n\t"
    ".size swap_planted,.-swap_planted\n");

/* run function of every context: records rsp and rdi exactly as they are at function
 * entry, then calls fiber_dispatch on a forcibly aligned stack (so that a misaligned entry
 * is REPORTED instead of faulting in some movaps). */
void* ctx_entry(void*);
uint64_t g_entry_rsp, g_entry_rdi;
void fiber_dispatch(void);
__asm__(
    ".text\n"
    ".globl ctx_entry\n"
    ".type ctx_entry,@function\n"
    "ctx_entry:\n\t"
    "movq %rsp, g_entry_rsp(%rip)\n\t"
    "movq %rdi, g_entry_rdi(%rip)\n\t"
    "subq $8, %rsp\n\t"
    "andq $-16, %rsp\n\t"
    "call fiber_dispatch@PLT\n\t"
    "ud2\n\t"
    ".size ctx_entry,.-ctx_entry\n");

/* ------------------------------------------------------------------ contexts */
#define MAXF 40
typedef struct fib {
  fiber_context_t ctx;
  int id;
  int created;   /* fiber_context_init done, not destroyed */
  int started;   /* entered its run function */
  int big;       /* stack large enough for the full body */
  int is_thread;
  uint64_t param;
  size_t req_size;
  uint64_t rng; /* private stream for canaries / planted values */
  /* small-stack loop */
  uint64_t in[6], out[8], prev[6];
  int have_prev;
  uint64_t entered;
} fib_t;

static fib_t F[MAXF];
static int K;              /* fibers are 1..K ; 0 = main thread's context ; K+1 = second thread's */
static volatile int g_next; /* context being switched to */
static volatile int g_home; /* the thread context driving the current phase */
static volatile int g_pos, g_nhops;
#define BIG_STACK (16384)

NOSAN static uint64_t frnd(fib_t* f) {
  uint64_t x = f->rng;
  x ^= x << 13; x ^= x >> 7; x ^= x << 17;
  f->rng = x;
  return x * 0x2545F4914F6CDD1DULL;
}

NOSAN static int pick_next(int cur) {
  int p = g_pos + 1;
  g_pos = p;
  if (p >= g_nhops) return g_home;
  for (int tries = 0; tries < 64; tries++) {
    int t = (int)(rnd() % (uint64_t)(K + 1)); /* 0 stands for "home" */
    if (t == 0) t = g_home;
    if (t == cur) continue;
    if (t != g_home && !F[t].created) continue;
    if (t != g_home && !F[t].big && cur != g_home) continue; /* small-stack fibers only ping-pong with the driver */
    return t;
  }
  return cur == g_home ? -1 : g_home;
}

NOSAN static void check_entry(fib_t* f) {
  uint64_t rsp = g_entry_rsp, rdi = g_entry_rdi;
  rec(E_ENTRY, f->id, "-", rsp, rdi, 0);
  if (rdi != f->param) rec(E_ORACLE, f->id, "param_mismatch", rdi, f->param, 0);
  if ((rsp & 15) != 8) rec(E_ORACLE, f->id, "entry_rsp_misaligned", rsp, rsp & 15, 0);
  uint64_t lo = (uint64_t)f->ctx.ctx_stack, hi = lo + f->ctx.ctx_stack_size;
  if (!(rsp > lo && rsp <= hi)) rec(E_ORACLE, f->id, "entry_rsp_outside_own_stack", rsp, lo, hi);
}

/* body for contexts with a roomy stack: canaries on the stack, random next hop */
NOSAN static void full_body(fib_t* f) {
  volatile uint64_t can[8];
  uint64_t in[6], out[8];
  for (;;) {
    uint64_t seed = frnd(f);
    for (int i = 0; i < 8; i++) can[i] = seed * (uint64_t)(2 * i + 3) + (uint64_t)i;
    for (int i = 0; i < 6; i++) in[i] = frnd(f);
    for (int i = 0; i < 8; i++) out[i] = 0;
    int to = pick_next(f->id);
    if (to < 0) return; /* only the driver gets here: nothing to switch to */
    g_next = to;
    rec(E_HOP, f->id, F[to].started || F[to].is_thread ? "resume" : "fresh", (uint64_t)to, (uint64_t)g_pos, 0);
    swap_planted(&f->ctx, &F[to].ctx, in, out);
    /* ---- resumed (possibly on another kernel thread) ---- */
    int bad = 0;
    for (int i = 0; i < 6; i++)
      if (out[i] != in[i]) { rec(E_ORACLE, f->id, "callee_saved_register_mismatch", (uint64_t)i, out[i], in[i]); bad = 1; }
    if (out[6] != out[7]) { rec(E_ORACLE, f->id, "rsp_mismatch", out[6], out[7], 0); bad = 1; }
    for (int i = 0; i < 8; i++)
      if (can[i] != seed * (uint64_t)(2 * i + 3) + (uint64_t)i) { rec(E_ORACLE, f->id, "stack_canary_mismatch", (uint64_t)i, can[i], 0); bad = 1; }
    if (!bad) rec(E_RESUME, f->id, "-", 0, 0, 0);
    if (f->is_thread && g_pos >= g_nhops) return;
  }
}

/* body for contexts with a small stack: ~250 bytes of stack, ping-pong with the driver */
NOSAN static void small_body(fib_t* f) {
  for (;;) {
    f->entered = f->entered + 1;
    swap_planted(&f->ctx, &F[g_home].ctx, f->in, f->out);
  }
}

NOSAN void fiber_dispatch(void) {
  fib_t* f = &F[g_next];
  f->started = 1;
  check_entry(f);
  if (f->big) full_body(f); else small_body(f);
  for (;;) __builtin_trap();
}

static int count_live(void) {
  int live = 0;
  for (int i = 0; i < g_nal; i++) live += g_al[i].live;
  return live;
}

/* ------------------------------------------------------------------ driver side (thread contexts: libc allowed) */
static const size_t SIZES[] = {1, 16, 100, 1024, 4096, 20000, 65536, 262144, 1048576};

static void create_fiber(int i, size_t size) {
  fib_t* f = &F[i];
  memset(&f->ctx, 0, sizeof f->ctx);
  f->id = i; f->started = 0; f->is_thread = 0; f->have_prev = 0; f->entered = 0;
  f->param = rnd();
  f->req_size = size;
  f->rng = rnd() | 1;
  int before[4] = {0, g_allocs[1], g_allocs[2], g_allocs[3]};
  const int live_before = count_live();
  int rc = fiber_context_init(&f->ctx, size, ctx_entry, (void*)f->param);
  if (rc != FIBER_SUCCESS && size >= ABSURD) {
    /* refused, as it must be: nothing may stay allocated behind a failed init */
    if (count_live() != live_before) rec(E_ORACLE, i, "refused_init_leaked_an_allocation", size, (uint64_t)(count_live() - live_before), 0);
    rec(E_NOTE, i, "init_refused", size, 0, 0);
    return;
  }
  if (rc != FIBER_SUCCESS) { rec(E_ORACLE, i, "init_failed", size, 0, 0); return; }
#ifndef FIBER_STACK_SPLIT
  /* (split stacks grow on demand: the requested size is only the first segment's) */
  if (f->ctx.ctx_stack_size < size) rec(E_ORACLE, i, "init_succeeded_with_a_smaller_stack", size, f->ctx.ctx_stack_size, 0);
#endif
  f->created = 1;
  uint64_t lo = (uint64_t)f->ctx.ctx_stack, sz = f->ctx.ctx_stack_size;
  rec(E_INIT, i, STRAT, size, sz, lo);
  int kind = !strcmp(STRAT, "malloc") ? K_MALLOC : !strcmp(STRAT, "mmap") ? K_MMAP : K_SPLIT;
  int expect_stack = 1, expect_other = 0;
#ifndef FIBER_FAST_SWITCHING
  if (kind == K_MALLOC) expect_stack = 2; else expect_other = 1; /* + the ucontext_t */
#endif
  if (g_allocs[kind] - before[kind] != expect_stack || (kind != K_MALLOC && g_allocs[K_MALLOC] - before[K_MALLOC] != expect_other))
    rec(E_ORACLE, i, "init_allocation_count", (uint64_t)(g_allocs[kind] - before[kind]), (uint64_t)expect_stack, 0);
  if (!al_find_live(f->ctx.ctx_stack, kind)) rec(E_ORACLE, i, "ctx_stack_not_a_live_allocation", lo, 0, 0);
  /* private stack: disjoint from every other live context's stack */
  for (int j = 1; j <= K; j++) {
    if (j == i || !F[j].created) continue;
    uint64_t lo2 = (uint64_t)F[j].ctx.ctx_stack, hi2 = lo2 + F[j].ctx.ctx_stack_size;
    if (lo < hi2 && lo2 < lo + sz) rec(E_ORACLE, i, "stack_overlap", (uint64_t)j, lo, lo2);
  }
#ifdef FIBER_FAST_SWITCHING
  /* bounds of the initial frame: 9 cells from the saved stack pointer */
  uint64_t sp = (uint64_t)f->ctx.ctx_stack_pointer;
  if (sp < lo || sp + 72 > lo + sz) rec(E_ORACLE, i, "initial_frame_out_of_bounds", sp, lo, sz);
  if (sp & 15) rec(E_ORACLE, i, "initial_sp_misaligned", sp, 0, 0);
#endif
  f->big = sz >= BIG_STACK;
  /* only enter contexts whose stack has at least the library's own declared minimum */
  if (sz < 1024) { rec(E_NOTE, i, "too_small_to_enter", sz, 0, 0); }
}

static void destroy_fiber(int i) {
  fib_t* f = &F[i];
  if (!f->created) return;
  int kind = !strcmp(STRAT, "malloc") ? K_MALLOC : !strcmp(STRAT, "mmap") ? K_MMAP : K_SPLIT;
  alloc_t* a = al_find_live(f->ctx.ctx_stack, kind);
  int ev0 = g_release_events;
  fiber_context_destroy(&f->ctx);
  int expect = 1;
#ifndef FIBER_FAST_SWITCHING
  expect = 2;
#endif
  rec(E_DESTROY, i, STRAT, (uint64_t)(g_release_events - ev0), 0, 0);
  if (g_release_events - ev0 != expect) rec(E_ORACLE, i, "destroy_release_count", (uint64_t)(g_release_events - ev0), (uint64_t)expect, 0);
  if (!a) rec(E_ORACLE, i, "destroy_stack_was_not_live", 0, 0, 0);
  else if (a->live || a->releases != 1) rec(E_ORACLE, i, "stack_not_released_exactly_once", (uint64_t)a->live, (uint64_t)a->releases, 0);
  f->created = 0;
}

/* one visit to a small-stack fiber: resume it, it plants f->in and comes straight back */
static void visit_small(fib_t* me, fib_t* f) {
  uint64_t in[6], out[8];
  for (int i = 0; i < 6; i++) { f->prev[i] = f->in[i]; f->in[i] = frnd(f); in[i] = frnd(me); }
  uint64_t e0 = f->entered;
  int fresh = !f->started;
  g_next = f->id;
  rec(E_HOP, me->id, fresh ? "fresh_small" : "resume_small", (uint64_t)f->id, (uint64_t)g_pos, 0);
  swap_planted(&me->ctx, &f->ctx, in, out);
  int bad = 0;
  for (int i = 0; i < 6; i++) if (out[i] != in[i]) { rec(E_ORACLE, me->id, "callee_saved_register_mismatch", (uint64_t)i, out[i], in[i]); bad = 1; }
  if (out[6] != out[7]) { rec(E_ORACLE, me->id, "rsp_mismatch", out[6], out[7], 0); bad = 1; }
  if (f->entered != e0 + 1) { rec(E_ORACLE, f->id, "small_fiber_did_not_run_once", f->entered, e0, 0); bad = 1; }
  if (!fresh) { /* what the fiber read back after ITS resumption = what it planted before */
    for (int i = 0; i < 6; i++) if (f->out[i] != f->prev[i]) { rec(E_ORACLE, f->id, "callee_saved_register_mismatch", (uint64_t)i, f->out[i], f->prev[i]); bad = 1; }
    if (f->out[6] != f->out[7]) { rec(E_ORACLE, f->id, "rsp_mismatch", f->out[6], f->out[7], 0); bad = 1; }
  }
  if (!bad) rec(E_RESUME, me->id, "-", 0, 0, 0);
}

static int g_churn;
static size_t g_size;

static void drive(int home) {
  fib_t* me = &F[home];
  g_home = home;
  g_tid = home == 0 ? 0 : 1;
  volatile uint64_t can[8];
  uint64_t in[6], out[8];
  while (g_pos < g_nhops) {
    /* housekeeping only the driver can do (libc): late creation, destroy + re-init */
    if (g_churn && home == 0) {
      int i = 1 + (int)(rnd() % (uint64_t)K);
      uint64_t r = rnd() % 8;
      if (!F[i].created && r < 4) create_fiber(i, r < 2 ? g_size : SIZES[rnd() % (sizeof SIZES / sizeof SIZES[0])]);
      else if (F[i].created && r == 7) destroy_fiber(i);
    }
    flush_events();
    int to = pick_next(home);
    if (to < 0) { /* nothing enterable: make one */
      int i = 1 + (int)(rnd() % (uint64_t)K);
      if (!F[i].created) create_fiber(i, g_size < BIG_STACK ? 65536 : g_size);
      continue;
    }
    if (to == home) break;
    fib_t* f = &F[to];
    if (f->ctx.ctx_stack_size < 1024) continue; /* never run on less than the declared minimum */
    if (!f->big) { visit_small(me, f); continue; }
    uint64_t seed = frnd(me);
    for (int i = 0; i < 8; i++) can[i] = seed * (uint64_t)(2 * i + 3) + (uint64_t)i;
    for (int i = 0; i < 6; i++) in[i] = frnd(me);
    g_next = to;
    rec(E_HOP, home, f->started ? "resume" : "fresh", (uint64_t)to, (uint64_t)g_pos, 0);
    swap_planted(&me->ctx, &f->ctx, in, out);
    int bad = 0;
    for (int i = 0; i < 6; i++) if (out[i] != in[i]) { rec(E_ORACLE, home, "callee_saved_register_mismatch", (uint64_t)i, out[i], in[i]); bad = 1; }
    if (out[6] != out[7]) { rec(E_ORACLE, home, "rsp_mismatch", out[6], out[7], 0); bad = 1; }
    for (int i = 0; i < 8; i++) if (can[i] != seed * (uint64_t)(2 * i + 3) + (uint64_t)i) { rec(E_ORACLE, home, "stack_canary_mismatch", (uint64_t)i, can[i], 0); bad = 1; }
    if (!bad) rec(E_RESUME, home, "-", 0, 0, 0);
  }
  flush_events();
}

static void* thread2(void* arg) {
  (void)arg;
  fib_t* me = &F[K + 1];
  me->id = K + 1; me->is_thread = 1; me->rng = rnd() | 1; me->big = 1;
  if (fiber_context_init_from_thread(&me->ctx) != FIBER_SUCCESS) { rec(E_ORACLE, K + 1, "init_from_thread_failed", 0, 0, 0); return NULL; }
  drive(K + 1);
  int ev0 = g_release_events;
  int st0 = g_frees[K_MMAP] + g_frees[K_SPLIT];
  fiber_context_destroy(&me->ctx);
#ifdef FIBER_FAST_SWITCHING
  if (g_release_events != ev0) rec(E_ORACLE, K + 1, "thread_context_released_something", (uint64_t)(g_release_events - ev0), 0, 0);
#else
  if (g_release_events - ev0 != 1 || g_frees[K_MMAP] + g_frees[K_SPLIT] != st0) rec(E_ORACLE, K + 1, "thread_context_release_count", (uint64_t)(g_release_events - ev0), 0, 0);
#endif
  return NULL;
}

int main(int argc, char** argv) {
  const char* lp = getenv("VR_LOG");
  g_log = lp ? fopen(lp, "w") : stdout;
  if (!g_log) return 2;
#if defined(__SANITIZE_ADDRESS__)
  __asan_set_error_report_callback(asan_cb);
#endif
  if (argc < 6) { fprintf(stderr, "usage: ctx nfibers size nhops xthread churn\n"); return 2; }
  K = atoi(argv[1]);
  g_size = (size_t)strtoull(argv[2], NULL, 0);
  int nhops = atoi(argv[3]);
  int xthread = atoi(argv[4]);
  g_churn = atoi(argv[5]);
  if (K < 1 || K > MAXF - 2) return 2;
  const char* s = getenv("VR_SEED");
  g_rng = (s ? strtoull(s, NULL, 0) : 1) * 0x9E3779B97F4A7C15ULL + 0x1234567;
  if (!g_rng) g_rng = 1;
  fprintf(g_log, "0 0 ctx note config %s %s nfibers=%d size=%zu nhops=%d xthread=%d churn=%d\n", STRAT, BACKEND, K, g_size, nhops,
          xthread, g_churn);
  fflush(g_log);

  fib_t* me = &F[0];
  me->id = 0; me->is_thread = 1; me->rng = rnd() | 1; me->big = 1;
  if (fiber_context_init_from_thread(&me->ctx) != FIBER_SUCCESS) { rec(E_ORACLE, 0, "init_from_thread_failed", 0, 0, 0); finish("ORACLE"); }

  /* create: all of them now, or (churn) about half now and the rest later */
  for (int i = 1; i <= K; i++)
    if (!g_churn || (rnd() & 1)) create_fiber(i, g_size);
  flush_events();

  /* phase 1: main thread drives */
  g_pos = 0; g_nhops = xthread ? nhops / 2 : nhops;
  drive(0);
  /* phase 2: a second kernel thread resumes contexts that were suspended on the first */
  if (xthread) {
    pthread_t th;
    g_pos = 0; g_nhops = nhops / 2;
    pthread_attr_t at;
    pthread_attr_init(&at);
    pthread_attr_setstacksize(&at, 1 << 20);
    if (pthread_create(&th, &at, thread2, NULL)) finish("SETUP");
    pthread_join(th, NULL);
    g_tid = 0;
    /* phase 3: back on the main thread, resuming what thread 2 suspended */
    g_pos = 0; g_nhops = nhops / 4 + 1;
    drive(0);
  }
  /* tear down: every context is suspended (or fresh) now */
  for (int i = 1; i <= K; i++) destroy_fiber(i);
  {
    int ev0 = g_release_events;
    int st0 = g_frees[K_MMAP] + g_frees[K_SPLIT];
    fiber_context_destroy(&me->ctx);
#ifdef FIBER_FAST_SWITCHING
    if (g_release_events != ev0) rec(E_ORACLE, 0, "thread_context_released_something", (uint64_t)(g_release_events - ev0), 0, 0);
#else
    if (g_release_events - ev0 != 1 || g_frees[K_MMAP] + g_frees[K_SPLIT] != st0) rec(E_ORACLE, 0, "thread_context_release_count", (uint64_t)(g_release_events - ev0), 0, 0);
#endif
  }
  int live = 0;
  for (int i = 0; i < g_nal; i++) live += g_al[i].live;
  if (live) rec(E_ORACLE, 0, "allocations_still_live_at_end", (uint64_t)live, 0, 0);
  for (int i = 0; i < g_nal; i++)
    if (g_al[i].releases > 1) rec(E_ORACLE, 0, "released_more_than_once", (uint64_t)g_al[i].p, (uint64_t)g_al[i].releases, 0);
  flush_events();
  fprintf(g_log, "0 0 ctx note totals allocs malloc=%d mmap=%d split=%d releases free=%d munmap=%d splitrelease=%d\n", g_allocs[1], g_allocs[2],
          g_allocs[3], g_frees[1], g_frees[2], g_frees[3]);
  finish(g_oracle ? "ORACLE" : "OK");
  return 0;
}
