/* hazard.c — correspondence harness for include/hazard_pointer.h + src/hazard_pointer.c (C14).
 *
 * The REAL code is compiled into this translation unit (`#include "hazard_pointer.c"`, no
 * edit): that makes the file-static `binary_search` reachable for the differential test and
 * lets the harness interpose the record allocation (`calloc` is a macro here) so that the
 * fields of a record are registered cells BEFORE create_and_push touches them.
 *
 * mode 1:  hazard <K> <arena nodes> <G> <script>
 *   Client protocol (the API contract property C14 talks about): G "global pointers"
 *   (atomic), each NULL or pointing to a node of a tiny arena (one array: node i has a
 *   lower address than node i+1, nodes are picked by index so protected / retired nodes
 *   occur in every address order).  Ops of a thread (its record is created at its first op):
 *     j          join only (create_and_push)
 *     a<g><s>    acquire G[g] into hazard slot s:
 *                  loop { p = load G[g]; if !p fail; using(slot s, p); [fence]; if p == load G[g] break }
 *                then "use" the node (note `use <s> @n`, poison check)
 *     u<s>       use the node protected by slot s again (poison check)
 *     r<s>       release slot s (hazard_pointer_done_using)
 *     x<g>f|n    unlink + retire: old = xchg(G[g], fresh node | NULL); hazard_pointer_free(old)
 *     s          explicit hazard_pointer_scan
 *     p<n>       pause for n scheduling points (no shared access, no event)
 *   The gc callback logs `note reclaim @n`, poisons the node and returns it to the arena
 *   free list (so it is re-published by a later `x`).  Ghost oracle: if a node is reclaimed
 *   while some thread is between a successful validate and its release of that node:
 *   `note ORACLE protected-reclaim @n`; a poisoned node that is used: `note ORACLE
 *   use-after-reclaim @n`.
 *   After the concurrent phase the main thread, acting for each record in turn (`note
 *   actas <t>`), releases all slots and then scans every record: all garbage must be gone.
 *
 * mode 2:  hazard bs <q;q;...>   with q = <needle>:<v>.<v>...   (sorted values, may be empty)
 *   pure differential test of the static binary_search: logs `note bs <result> <needle> <v>*`.
 *
 * Registered cells: head, per record t: next<t>, thr<t> (retire_threshold), rc<t>
 * (retired_count), hp<t>_<i>; G<g>.  Objects: R<t> (records), n<i> (arena nodes, 1-based).
 */
#include <malloc.h>
#include <sys/mman.h>
#include <stdint.h>
#include <stdlib.h>

#include "common.h"

static int cfg_k;                 /* hazard slots per record */
static __thread int cur_thread;   /* script thread on whose behalf a record is being created */

static void* vh_calloc(size_t n, size_t sz) {
  char* p = calloc(n, sz);
  /* layout taken from the real header below via offsetof at the registration site */
  extern void vh_register_record(void* rec, size_t bytes);
  vh_register_record(p, n * sz);
  return p;
}
#define calloc(n, sz) vh_calloc((n), (sz))
#include "hazard_pointer.c"
#undef calloc

void vh_register_record(void* p, size_t bytes) {
  hazard_pointer_thread_record_t* r = p;
  int t = cur_thread;
  vr_obj(r, bytes, "R%d", t);
  vr_reg(&r->next, sizeof r->next, "next%d", t);
  vr_reg(&r->retire_threshold, sizeof r->retire_threshold, "thr%d", t);
  vr_reg(&r->retired_count, sizeof r->retired_count, "rc%d", t);
  for (int i = 0; i < cfg_k; i++) vr_reg(&r->hazard_pointers[i], sizeof r->hazard_pointers[i], "hp%d_%d", t, i);
}

#define MAXNODES 16
#define MAXG 4
#define MAXK 4

typedef struct anode {
  hazard_node_t hn;
  long poisoned;
} anode_t;

static _Atomic(hazard_pointer_thread_record_t*) hp_head;
static hazard_pointer_thread_record_t* rec[VH_MAXT];
/* node i lives at arena_base + i * arena_stride.  Default: one dense array (addresses collide
 * in every order).  With env VH_SPREAD=1 the nodes are 3 GiB + 48 bytes apart in a reserved
 * (never touched except for the nodes) mapping, so pointer DIFFERENCES do not fit in 32 bits:
 * "all address patterns" includes hazard pointers that far apart. */
static anode_t arena_dense[MAXNODES];
static char* arena_base = (char*)arena_dense;
static size_t arena_stride = sizeof(anode_t);
#define ARENA(i) ((anode_t*)(arena_base + (size_t)(i) * arena_stride))
static int narena, ng;
static _Atomic(anode_t*) G[MAXG];

/* harness-private ghost state: only touched while holding the baton, never across a
 * scheduling point (no registered access in between) */
static anode_t* freelist[MAXNODES];
static int nfree;
static anode_t* validated[VH_MAXT][MAXK];

static int nid(anode_t* n) { return n ? (int)(((char*)n - arena_base) / arena_stride) + 1 : 0; }
/* "@n3" or "0" */
static const char* nname(anode_t* n) {
  static __thread char buf[4][16];
  static __thread int k;
  char* b = buf[k++ & 3];
  if (n) snprintf(b, 16, "@n%d", nid(n));
  else snprintf(b, 16, "0");
  return b;
}
/* harness bookkeeping reads of a record's private counter: not instrumented (no event) */
__attribute__((no_sanitize("thread"), noinline)) static unsigned long get_rc(hazard_pointer_thread_record_t* r) { return *(volatile size_t*)&r->retired_count; }

__attribute__((no_sanitize("thread"), noinline)) static void set_poison(anode_t* n, long v) { *(volatile long*)&n->poisoned = v; }
__attribute__((no_sanitize("thread"), noinline)) static long get_poison(anode_t* n) { return *(volatile long*)&n->poisoned; }

static void node_gc(void* gc_data, hazard_node_t* hn) {
  (void)gc_data;
  anode_t* n = (anode_t*)hn;
  vr_note("reclaim @n%d", nid(n));
  for (int t = 0; t < VH_MAXT; t++)
    for (int s = 0; s < MAXK; s++)
      if (validated[t][s] == n) vr_note("ORACLE protected-reclaim @n%d", nid(n));
  if (get_poison(n)) vr_note("ORACLE double-reclaim @n%d", nid(n));
  set_poison(n, 1);
  freelist[nfree++] = n;
}

static void use(int t, int s, anode_t* n) {
  (void)t;
  vr_note("use %d @n%d", s, nid(n));
  if (get_poison(n)) vr_note("ORACLE use-after-reclaim @n%d", nid(n));
}

static void join(int t) {
  if (rec[t]) return;
  cur_thread = t;
  vr_note("call join");
  hazard_pointer_thread_record_t* r = hazard_pointer_thread_record_create_and_push(&hp_head, cfg_k);
  rec[t] = r;
  vr_note("ret join");
}

static void release(int t, int s) {
  vr_note("call rel %d", s);
  validated[t][s] = NULL;
  hazard_pointer_done_using(rec[t], s);
  vr_note("ret rel");
}

static void scan(int t) {
  vr_note("call scan");
  hazard_pointer_scan(rec[t]);
  vr_note("ret scan");
  vr_note("retired_count %d %lu", t, get_rc(rec[t]));
}

static void do_op(int t, const char* op) {
  join(t);
  hazard_pointer_thread_record_t* h = rec[t];
  switch (op[0]) {
    case 'j':
      break;
    case 'a': {
      int g = op[1] - '0', s = op[2] - '0';
      if (g < 0 || g >= ng || s < 0 || s >= cfg_k) break;
      vr_note("call acq %d %d", g, s);
      validated[t][s] = NULL;
      anode_t* p;
      for (;;) {
        p = atomic_load(&G[g]);
        if (!p) break;
        hazard_pointer_using(h, &p->hn, s);
        if (p == atomic_load(&G[g])) {
          validated[t][s] = p; /* no scheduling point since the validating load */
          vr_note("validated %d @n%d", s, nid(p));
          break;
        }
      }
      if (p) use(t, s, p);
      vr_note("ret acq %s", nname(p));
      break;
    }
    case 'u': {
      int s = op[1] - '0';
      if (s < 0 || s >= cfg_k || !validated[t][s]) break;
      use(t, s, validated[t][s]);
      break;
    }
    case 'r': {
      int s = op[1] - '0';
      if (s < 0 || s >= cfg_k) break;
      release(t, s);
      break;
    }
    case 'x': {
      int g = op[1] - '0';
      if (g < 0 || g >= ng) break;
      /* out of nodes: do what a real client does, scan the own retired list first */
      if (op[2] == 'f' && nfree == 0 && get_rc(h) > 0) scan(t);
      vr_note("call xchg %d", g);
      anode_t* fresh = NULL;
      if (op[2] == 'f' && nfree > 0) {
        fresh = freelist[--nfree];
        set_poison(fresh, 0);
        fresh->hn.gc_function = node_gc;
        fresh->hn.gc_data = NULL;
      }
      vr_note("alloc %s", nname(fresh));
      anode_t* old = atomic_exchange(&G[g], fresh);
      if (old) {
        vr_note("call retire @n%d", nid(old));
        hazard_pointer_free(h, &old->hn);
        vr_note("ret retire");
        vr_note("retired_count %d %lu", t, get_rc(h));
      }
      vr_note("ret xchg");
      break;
    }
    case 's':
      scan(t);
      break;
    case 'p': /* pause: n plain scheduling points (lets a protection live through other threads' scans) */
      for (int n = atoi(op + 1); n > 0; n--) vr_point();
      break;
    default:
      break;
  }
}

/* ---------------------------------------------------------------- binary_search differential */

static int bs_mode(const char* qs) {
  vr_note("init bs");
  char* dup = strdup(qs);
  char* save = NULL;
  for (char* q = strtok_r(dup, ";", &save); q; q = strtok_r(NULL, ";", &save)) {
    void* hay[64];
    int n = 0;
    char* colon = strchr(q, ':');
    if (!colon) continue;
    *colon = 0;
    unsigned long needle = strtoul(q, NULL, 10);
    char* save2 = NULL;
    for (char* v = strtok_r(colon + 1, ".", &save2); v && n < 64; v = strtok_r(NULL, ".", &save2)) hay[n++] = (void*)strtoul(v, NULL, 10);
    int r = binary_search(hay, n, (void*)needle);
    char buf[900];
    int l = snprintf(buf, sizeof buf, "bs %d %lu", r, needle);
    for (int i = 0; i < n; i++) l += snprintf(buf + l, sizeof buf - l, " %lu", (unsigned long)hay[i]);
    vr_note("%s", buf);
  }
  vr_finish("OK");
}

int main(int argc, char** argv) {
  if (argc >= 3 && !strcmp(argv[1], "bs")) return bs_mode(argv[2]);
  if (argc < 5) return 2;
  cfg_k = atoi(argv[1]);
  narena = atoi(argv[2]);
  ng = atoi(argv[3]);
  if (cfg_k < 1 || cfg_k > MAXK || narena < 1 || narena > MAXNODES || ng < 1 || ng > MAXG) return 2;
  vh_parse(argv[4]);
  if (getenv("VH_SPREAD") && atoi(getenv("VH_SPREAD"))) {
    arena_stride = ((size_t)3 << 30) + 48;
    arena_base = mmap(0, arena_stride * (size_t)(narena + 1), PROT_READ | PROT_WRITE,
                      MAP_PRIVATE | MAP_ANONYMOUS | MAP_NORESERVE, -1, 0);
    if (arena_base == MAP_FAILED) return 2;
  }
  vr_reg(&hp_head, sizeof hp_head, "head");
  for (int g = 0; g < ng; g++) vr_reg(&G[g], sizeof G[g], "G%d", g);
  for (int i = 0; i < narena; i++) {
    vr_obj(ARENA(i), sizeof(anode_t), "n%d", i + 1);
    set_poison(ARENA(i), 1);
  }
  /* free list pops the LOWEST index last so fresh nodes come in descending address order
   * first and in recycling order afterwards */
  for (int i = 0; i < narena; i++) freelist[nfree++] = ARENA(i);
  vr_note("init hp %d %d %d", cfg_k, narena, ng);
  vh_run(do_op);
  /* drain, single-threaded, acting for each record in turn */
  for (int t = 0; t < vh_script.nthreads; t++) {
    if (!rec[t]) continue;
    vr_note("actas %d", t);
    for (int s = 0; s < cfg_k; s++) release(t, s);
  }
  for (int t = 0; t < vh_script.nthreads; t++) {
    if (!rec[t]) continue;
    vr_note("actas %d", t);
    scan(t);
  }
  vr_note("actas 0");
  vr_finish("OK");
}
