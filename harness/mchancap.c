/* mchancap.c — (multi-channel twin of chancap.c) capacity harness for fiber_bounded_channel_create / fiber_multi_channel_create
 * (C11: "for all capacities").  The access-level harnesses (chan.c, multichan.c) use small
 * capacities; this one asks for every capacity exponent the constructors' asserts admit
 * (1 <= k < 32) and checks that the object really has the 2^k slots it declares.
 *   usage: mchancap m <k>
 * A constructor may refuse (NULL: status OK, note `refused`).  Otherwise the allocation must hold
 * the header and 2^k pointers (malloc_usable_size) and the recorded capacity / mask must be 2^k
 * and 2^k - 1.  Statuses: OK, UNDERSIZED, BADFIELDS. */
#include <malloc.h>
#include <stddef.h>
#include <stdint.h>

#include "rtcommon.h"
#include "fiber_multi_channel.h"

VH_NOINSTR int main(int argc, char** argv) {
  if (argc < 3) return 2;
  const char kind = argv[1][0];
  const unsigned k = (unsigned)atoi(argv[2]);
  const uint64_t want = (uint64_t)1 << k;
  fiber_manager_init(1);
  vr_note("init chancap %c %u", kind, k);
  void* obj;
  uint64_t size, mask;
  size_t hdr;
  {
    fiber_multi_channel_t* c = fiber_multi_channel_create(k);
    obj = c;
    if (c) { size = c->size; mask = c->power_of_2_mod; }
    hdr = offsetof(fiber_multi_channel_t, buffer);
  }
  if (!obj) {
    vr_note("refused %u", k);
    vr_finish("OK");
  }
  const size_t usable = malloc_usable_size(obj);
  const size_t need = hdr + (size_t)want * sizeof(void*);
  vr_note("capacity %u size %llu mask %llu usable %zu need %zu", k, (unsigned long long)size, (unsigned long long)mask, usable, need);
  if (size != want || mask != want - 1) vr_finish("BADFIELDS");
  if (usable < need) vr_finish("UNDERSIZED");
  vr_finish("OK");
}
