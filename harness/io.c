/* io.c — harness for property C08: the libc shims of src/fiber_io.c on top of
 * fiber_wait_for_event / the fd branch of the poller / fiber_fd_closed (src/fiber_event_native.c).
 *
 * usage: io <mode> <kernel threads> <setup> <script>
 *   mode  f = fibers on the REAL runtime (shims active), under the deterministic scheduler
 *         r = plain-pthread REFERENCE run: the same script, every thread has called
 *             fiber_io_lock_thread() (shims transparent), the runtime is not started, the
 *             descriptors are ordinary blocking ones; results are printed as `ref` notes
 *   setup = comma list of kernel objects created before the script starts; endpoints e0,e1,..
 *           are numbered in creation order
 *             S<sndbuf>  socketpair(AF_UNIX, SOCK_STREAM) -> 2 endpoints (SO_SNDBUF if >0)
 *             P<size>    pipe -> read end, write end (F_SETPIPE_SZ if >0)
 *             L          TCP listener on 127.0.0.1, ephemeral port -> 1 endpoint
 *   script = "op,op|op,op|.." one op list per fiber (thread in mode r)
 *   endpoint token: a number (endpoint index; 32.. are slots filled by acc/conn/sp/pp), or
 *           N = -1, C = a closed descriptor, M = max_fd, X = max_fd+5, H = -1000
 *   ops   rd rv rc rcd rf rfd rm rmd <ep>_<n>   read readv recv recv(DONTWAIT) recvfrom .. recvmsg ..
 *         wr wv sn snd st std sm smd <ep>_<n>   write writev send send(DONTWAIT) sendto .. sendmsg ..
 *         ra<ep>_<n> / wa<ep>_<n>               read()/write() loop until n bytes, EOF or error
 *         nb<ep>  fcntl(F_SETFL,O_NONBLOCK)     nbo<ep> fcntl(F_SETFL, F_GETFL|O_NONBLOCK)
 *         bl<ep>  fcntl(F_SETFL, F_GETFL&~O_NONBLOCK)     fio<ep>_<0|1> ioctl(FIONBIO)
 *         cl<ep> close   shw<ep> shutdown(SHUT_WR)
 *         acc<L>_<slot>  accept            conn<L>_<slot> socket+connect to listener L
 *         cx<ep>_<L>     connect(existing descriptor) to listener L
 *         sp_<slot> socketpair -> slot,slot+1     pp_<slot> pipe -> slot,slot+1
 *         y yield      spin<k> yield until flag k is set      set<k> set flag k
 *
 * Every shim call is bracketed by `call <name> <fd> <n> <dontwait>` / `ret <name> <r> <errno>`;
 * every UNDERLYING libc call the shim makes is logged as `sys <name> <fd> <r> <errno>` by
 * trampolines put into the file-static fibershim_* pointers (wrap_io.c), every epoll_ctl as
 * `epctl <op> <fd> <events> <r> <errno>`.  Transferred bytes are position-dependent per
 * stream and are generated / verified inside the trampolines, i.e. in true kernel order:
 * loss, duplication or reordering ends the run with status DATAERR.
 *
 * Built a second time with -DIO_NATIVE -fsanitize=address (no TSan instrumentation, no
 * deterministic scheduler) as the bounds oracle for bad descriptors.
 */
#define _GNU_SOURCE
#include <arpa/inet.h>
#include <dlfcn.h>
#include <errno.h>
#include <fcntl.h>
#include <netinet/in.h>
#include <pthread.h>
#include <sched.h>
#include <signal.h>
#include <stdarg.h>
#include <stdio.h>
#include <stdlib.h>
#include <string.h>
#include <sys/epoll.h>
#include <sys/ioctl.h>
#include <sys/socket.h>
#include <sys/syscall.h>
#include <sys/uio.h>
#include <unistd.h>

#include "fiber.h"
#include "fiber_io.h"
#include "fiber_manager.h"
#include "fiber_mutex.h"
#include "wrap_io.h"

#define VH_NOINSTR __attribute__((no_sanitize_thread))
#ifndef F_SETPIPE_SZ
#define F_SETPIPE_SZ 1031
#endif

/* ------------------------------------------------------------------ log */
#ifdef IO_NATIVE
static FILE* nlog;
static __thread int n_fid;
VH_NOINSTR static void nlog_open(void) {
  const char* p = getenv("VR_LOG");
  nlog = p && *p ? fopen(p, "w") : stdout;
  if (!nlog) nlog = stdout;
  setvbuf(nlog, NULL, _IOLBF, 0);
}
void vr_note(const char* fmt, ...) {
  char buf[256];
  va_list ap;
  va_start(ap, fmt);
  vsnprintf(buf, sizeof buf, fmt, ap);
  va_end(ap);
  fprintf(nlog, "0 %d - note %s\n", n_fid, buf);
}
void vr_reg(const volatile void* a, size_t s, const char* fmt, ...) { (void)a; (void)s; (void)fmt; }
void vr_obj(const volatile void* a, size_t s, const char* fmt, ...) { (void)a; (void)s; (void)fmt; }
void vr_relax(void) {}
void vr_set_done(void) {}
int vr_fiber(void) { return n_fid; }
__attribute__((noreturn)) void vr_finish(const char* status) {
  fprintf(nlog, "# status %s sp 0 events 0 threads 0 fibers 0\n", status);
  fflush(nlog);
  _exit(strcmp(status, "OK") ? 3 : 0);
}
extern void __asan_set_error_report_callback(void (*cb)(const char*));
static void asan_line(const char* report, const char* key, char* out, size_t cap) {
  const char* p = strstr(report, key);
  out[0] = 0;
  if (!p) return;
  size_t n = strcspn(p, "\n");
  if (n >= cap) n = cap - 1;
  memcpy(out, p, n);
  out[n] = 0;
}
static void asan_cb(const char* report) {
  /* "SUMMARY: AddressSanitizer: heap-buffer-overflow /repo/src/x.c:38 in f" and
   * "is located 12 bytes to the left of 480000-byte region [..)" */
  char sum[300], loc[300];
  asan_line(report, "SUMMARY: AddressSanitizer:", sum, sizeof sum);
  asan_line(report, "is located", loc, sizeof loc);
  if (!sum[0]) asan_line(report, "ERROR: AddressSanitizer:", sum, sizeof sum);
  fprintf(nlog, "0 %d - note asan %s | %s\n", n_fid, sum, loc);
  fprintf(nlog, "# status ASAN sp 0 events 0 threads 0 fibers 0\n");
  fflush(nlog);
  _exit(3);
}
#else
#include "vrt.h"
#endif

/* ------------------------------------------------------------------ script */
#define MAXF 16
#define MAXOPS 256
#define EPMAX 64
#define FDT 1024
static int nfib;
static int nops[MAXF];
static char* ops[MAXF][MAXOPS];
static int mode_ref;
static int kthreads;

VH_NOINSTR static void parse_script(const char* s) {
  char* dup = strdup(s);
  char* save1 = NULL;
  for (char* th = strtok_r(dup, "|", &save1); th; th = strtok_r(NULL, "|", &save1)) {
    int t = nfib++;
    if (t >= MAXF) { fprintf(stderr, "too many fibers\n"); exit(2); }
    char* save2 = NULL;
    for (char* op = strtok_r(th, ",", &save2); op; op = strtok_r(NULL, ",", &save2)) {
      if (*op == '-') continue;
      if (nops[t] >= MAXOPS) { fprintf(stderr, "too many ops\n"); exit(2); }
      ops[t][nops[t]++] = op;
    }
  }
}

/* ------------------------------------------------------------------ kernel objects */
static int ep[EPMAX];         /* endpoint -> descriptor */
static int lport[EPMAX];      /* listener endpoint -> port */
static int nep;
static long io_max_fd = 20000;
static int closed_fd = 60;
static volatile int flags_[16];
static volatile int dataerr;
static int done_count;

/* stream bookkeeping, indexed by descriptor number */
static int peer_of[FDT];        /* descriptor at the other end, or -1 */
static long wpos[FDT], rpos[FDT];
static int local_port[FDT];

static inline unsigned char pat(int src_fd, long p) {
  return (unsigned char)(p * 131 + (p >> 8) * 7 + src_fd * 17 + 1);
}
static inline int fd_ok(int fd) { return fd >= 0 && fd < FDT; }

VH_NOINSTR static void fill_out(int fd, void* buf, size_t n, long skip) {
  if (!fd_ok(fd) || mode_ref) return;
  unsigned char* b = buf;
  for (size_t i = 0; i < n; i++) b[i] = pat(fd, wpos[fd] + skip + (long)i);
}
VH_NOINSTR static void check_in(int fd, const void* buf, long r, long skip) {
  if (!fd_ok(fd) || mode_ref || r <= 0) return;
  int src = peer_of[fd];
  if (src < 0) return;
  const unsigned char* b = buf;
  for (long i = 0; i < r; i++)
    if (b[i] != pat(src, rpos[fd] + skip + i)) {
      if (!dataerr) vr_note("DATAERR fd %d pos %ld got %d want %d", fd, rpos[fd] + skip + i, b[i], pat(src, rpos[fd] + skip + i));
      dataerr = 1;
      return;
    }
}
VH_NOINSTR static void pair(int a, int b) {
  if (fd_ok(a) && fd_ok(b)) {
    peer_of[a] = b;
    peer_of[b] = a;
    wpos[a] = rpos[a] = wpos[b] = rpos[b] = 0;
  }
}
/* an accepted connection `r` meets the connecting descriptor `k`, which may already have sent */
VH_NOINSTR static void pair_acc(int r, int k) {
  if (fd_ok(r) && fd_ok(k)) {
    peer_of[r] = k;
    peer_of[k] = r;
    wpos[r] = rpos[r] = 0;
  }
}

/* ------------------------------------------------------------------ trampolines for the underlying libc calls */
static vw_io_hooks_t real;

#define SYSNOTE(name, fd, r)                                        \
  do {                                                              \
    int e_ = errno;                                                 \
    vr_note("sys %s %d %ld %d", name, (int)(fd), (long)(r), (r) < 0 ? e_ : 0); \
    errno = e_;                                                     \
  } while (0)

VH_NOINSTR static ssize_t h_read(int fd, void* b, size_t n) {
  ssize_t r = real.read(fd, b, n);
  check_in(fd, b, r, 0);
  if (r > 0 && fd_ok(fd)) rpos[fd] += r;
  SYSNOTE("read", fd, r);
  return r;
}
VH_NOINSTR static void check_iov(int fd, const struct iovec* iov, int cnt, long r) {
  long done = 0;
  for (int k = 0; k < cnt && done < r; k++) {
    long m = (long)iov[k].iov_len < r - done ? (long)iov[k].iov_len : r - done;
    check_in(fd, iov[k].iov_base, m, done);
    done += m;
  }
  if (r > 0 && fd_ok(fd)) rpos[fd] += r;
}
VH_NOINSTR static void fill_iov(int fd, const struct iovec* iov, int cnt) {
  long done = 0;
  for (int k = 0; k < cnt; k++) {
    fill_out(fd, iov[k].iov_base, iov[k].iov_len, done);
    done += (long)iov[k].iov_len;
  }
}
VH_NOINSTR static ssize_t h_readv(int fd, const struct iovec* iov, int cnt) {
  ssize_t r = real.readv(fd, iov, cnt);
  check_iov(fd, iov, cnt, r);
  SYSNOTE("readv", fd, r);
  return r;
}
VH_NOINSTR static ssize_t h_recv(int fd, void* b, size_t n, int fl) {
  ssize_t r = real.recv(fd, b, n, fl);
  check_in(fd, b, r, 0);
  if (r > 0 && fd_ok(fd)) rpos[fd] += r;
  SYSNOTE("recv", fd, r);
  return r;
}
VH_NOINSTR static ssize_t h_recvfrom(int fd, void* b, size_t n, int fl, struct sockaddr* a, socklen_t* al) {
  ssize_t r = real.recvfrom(fd, b, n, fl, a, al);
  check_in(fd, b, r, 0);
  if (r > 0 && fd_ok(fd)) rpos[fd] += r;
  SYSNOTE("recvfrom", fd, r);
  return r;
}
VH_NOINSTR static ssize_t h_recvmsg(int fd, struct msghdr* m, int fl) {
  ssize_t r = real.recvmsg(fd, m, fl);
  check_iov(fd, m->msg_iov, (int)m->msg_iovlen, r);
  SYSNOTE("recvmsg", fd, r);
  return r;
}
VH_NOINSTR static ssize_t h_write(int fd, const void* b, size_t n) {
  fill_out(fd, (void*)b, n, 0);
  ssize_t r = real.write(fd, b, n);
  if (r > 0 && fd_ok(fd)) wpos[fd] += r;
  SYSNOTE("write", fd, r);
  return r;
}
VH_NOINSTR static ssize_t h_writev(int fd, const struct iovec* iov, int cnt) {
  fill_iov(fd, iov, cnt);
  ssize_t r = real.writev(fd, iov, cnt);
  if (r > 0 && fd_ok(fd)) wpos[fd] += r;
  SYSNOTE("writev", fd, r);
  return r;
}
VH_NOINSTR static ssize_t h_send(int fd, const void* b, size_t n, int fl) {
  fill_out(fd, (void*)b, n, 0);
  ssize_t r = real.send(fd, b, n, fl);
  if (r > 0 && fd_ok(fd)) wpos[fd] += r;
  SYSNOTE("send", fd, r);
  return r;
}
VH_NOINSTR static ssize_t h_sendto(int fd, const void* b, size_t n, int fl, const struct sockaddr* a, socklen_t al) {
  fill_out(fd, (void*)b, n, 0);
  ssize_t r = real.sendto(fd, b, n, fl, a, al);
  if (r > 0 && fd_ok(fd)) wpos[fd] += r;
  SYSNOTE("sendto", fd, r);
  return r;
}
VH_NOINSTR static ssize_t h_sendmsg(int fd, const struct msghdr* m, int fl) {
  fill_iov(fd, m->msg_iov, (int)m->msg_iovlen);
  ssize_t r = real.sendmsg(fd, m, fl);
  if (r > 0 && fd_ok(fd)) wpos[fd] += r;
  SYSNOTE("sendmsg", fd, r);
  return r;
}
VH_NOINSTR static int h_accept(int fd, struct sockaddr* a, socklen_t* al) {
  int r = real.accept(fd, a, al);
  SYSNOTE("accept", fd, r);
  return r;
}
VH_NOINSTR static int h_connect(int fd, const struct sockaddr* a, socklen_t al) {
  int r = real.connect(fd, a, al);
  SYSNOTE("connect", fd, r);
  return r;
}
VH_NOINSTR static int h_socket(int d, int t, int p) {
  int r = real.socket(d, t, p);
  SYSNOTE("socket", -1, r);
  return r;
}
VH_NOINSTR static int h_socketpair(int d, int t, int p, int sv[2]) {
  int r = real.socketpair(d, t, p, sv);
  int e = errno;
  vr_note("sys socketpair %d %d %d %d", r == 0 ? sv[0] : -1, r == 0 ? sv[1] : -1, r, r < 0 ? e : 0);
  errno = e;
  return r;
}
VH_NOINSTR static int h_pipe(int pv[2]) {
  int r = real.pipe(pv);
  int e = errno;
  vr_note("sys pipe %d %d %d %d", r == 0 ? pv[0] : -1, r == 0 ? pv[1] : -1, r, r < 0 ? e : 0);
  errno = e;
  return r;
}
VH_NOINSTR static int h_fcntl(int fd, int cmd, ...) {
  va_list ap;
  va_start(ap, cmd);
  long v = va_arg(ap, long);
  va_end(ap);
  int r = real.fcntl(fd, cmd, v);
  int e = errno;
  vr_note("sys fcntl %d %d %d %ld", fd, r, r < 0 ? e : 0, (long)cmd * 100000 + (cmd == F_SETFL ? (v & O_NONBLOCK ? 1 : 0) : 0));
  errno = e;
  return r;
}
VH_NOINSTR static int h_ioctl(int fd, unsigned long req, ...) {
  va_list ap;
  va_start(ap, req);
  void* v = va_arg(ap, void*);
  va_end(ap);
  int r = real.ioctl(fd, req, v);
  SYSNOTE("ioctl", fd, r);
  return r;
}
VH_NOINSTR static int h_close(int fd) {
  int r = real.close(fd);
  if (r == 0 && fd_ok(fd)) {
    peer_of[fd] = -1;
    local_port[fd] = 0;
    wpos[fd] = rpos[fd] = 0;
  }
  SYSNOTE("close", fd, r);
  return r;
}

#ifndef IO_REF_ONLY
/* every epoll_ctl of the library goes through here (the executable's definition wins) */
VH_NOINSTR int epoll_ctl(int epfd, int op, int fd, struct epoll_event* ev) {
  long r = syscall(SYS_epoll_ctl, epfd, op, fd, ev);
  int e = errno;
  vr_note("epctl %s %d %u %ld %d", op == EPOLL_CTL_ADD ? "ADD" : op == EPOLL_CTL_MOD ? "MOD" : "DEL", fd,
          ev ? (unsigned)(ev->events & (EPOLLIN | EPOLLOUT)) : 0u, r, r < 0 ? e : 0);
  errno = e;
  return (int)r;
}
#endif

/* ------------------------------------------------------------------ reference-mode result records */
typedef struct rec {
  int t, i;
  char name[20];
  long r;
  int e;
} rec_t;
static rec_t* recs[MAXF];
static int nrec[MAXF];

static __attribute__((noinline)) int get_errno(void) { return errno; }

VH_NOINSTR static void note_ret(int t, int i, const char* name, long r, int e) {
  if (mode_ref) {
    if (t >= 0 && nrec[t] < 4096) {
      rec_t* x = &recs[t][nrec[t]++];
      x->t = t;
      x->i = i;
      snprintf(x->name, sizeof x->name, "%s", name);
      x->r = r;
      x->e = e;
    }
  } else
    vr_note("ret %s %ld %d", name, r, e);
}
VH_NOINSTR static void note_call(const char* name, int fd, long n, int fl) {
  if (!mode_ref) vr_note("call %s %d %ld %d", name, fd, n, fl);
}

#define CALL(nm, fd, n, fl, expr)                     \
  ({                                                  \
    note_call(nm, fd, (long)(n), fl);                 \
    long r_ = (long)(expr);                           \
    int e_ = r_ < 0 ? get_errno() : 0;                \
    note_ret(t, i, nm, r_, e_);                       \
    last_errno = e_;                                  \
    r_;                                               \
  })

/* ------------------------------------------------------------------ ops */
VH_NOINSTR static int ep_fd(const char* tok, const char** rest) {
  if (*tok >= '0' && *tok <= '9') {
    char* end;
    long k = strtol(tok, &end, 10);
    *rest = end;
    return k >= 0 && k < EPMAX ? ep[k] : -1;
  }
  *rest = tok + 1;
  switch (*tok) {
    case 'N': return -1;
    case 'C': return closed_fd;
    case 'M': return (int)io_max_fd;
    case 'X': return (int)io_max_fd + 5;
    case 'H': return -1000;
  }
  *rest = tok;
  return -1;
}

VH_NOINSTR static void addr_of(int lep, struct sockaddr_in* a) {
  memset(a, 0, sizeof *a);
  a->sin_family = AF_INET;
  a->sin_addr.s_addr = htonl(INADDR_LOOPBACK);
  a->sin_port = htons(lep >= 0 && lep < EPMAX && lport[lep] ? lport[lep] : 1);
}

static void yield_op(void) {
  if (mode_ref) sched_yield();
  else fiber_yield();
}

static void do_op(int t, int i, const char* op) {
  int last_errno = 0;
  char name[8];
  int nl = 0;
  while (op[nl] >= 'a' && op[nl] <= 'z' && nl < 7) { name[nl] = op[nl]; nl++; }
  name[nl] = 0;
  const char* p = op + nl;
  int fd = -1, epi = -1;
  if (*p && *p != '_') {
    if (*p >= '0' && *p <= '9') epi = atoi(p);
    fd = ep_fd(p, &p);
  }
  long a1 = 0, a2 = 0;
  if (*p == '_') { a1 = strtol(p + 1, (char**)&p, 10); }
  if (*p == '_') { a2 = strtol(p + 1, (char**)&p, 10); }
  if (!mode_ref) vr_note("op %d %d %s", t, i, op);
#define IS(s) (!strcmp(name, s))
  if (IS("y")) { yield_op(); return; }
  if (IS("spin")) {
    while (!flags_[epi & 15]) { yield_op(); vr_relax(); }
    return;
  }
  if (IS("set")) { flags_[epi & 15] = 1; return; }
  long n = a1;
  if (IS("rd") || IS("rv") || IS("rc") || IS("rcd") || IS("rf") || IS("rfd") || IS("rm") || IS("rmd") || IS("ra")) {
    char* buf = malloc(n + 8);
    long h = n / 3;
    struct iovec iov[2] = {{buf, h}, {buf + h, n - h}};
    if (IS("rd")) CALL("read", fd, n, 0, read(fd, buf, n));
    else if (IS("rv")) CALL("readv", fd, n, 0, readv(fd, iov, 2));
    else if (IS("rc")) CALL("recv", fd, n, 0, recv(fd, buf, n, 0));
    else if (IS("rcd")) CALL("recv", fd, n, 1, recv(fd, buf, n, MSG_DONTWAIT));
    else if (IS("rf")) CALL("recvfrom", fd, n, 0, recvfrom(fd, buf, n, 0, NULL, NULL));
    else if (IS("rfd")) CALL("recvfrom", fd, n, 1, recvfrom(fd, buf, n, MSG_DONTWAIT, NULL, NULL));
    else if (IS("rm") || IS("rmd")) {
      struct msghdr m;
      memset(&m, 0, sizeof m);
      m.msg_iov = iov;
      m.msg_iovlen = 2;
      int fl = IS("rmd") ? MSG_DONTWAIT : 0;
      CALL("recvmsg", fd, n, fl != 0, recvmsg(fd, &m, fl));
    } else { /* ra: read until n bytes, EOF or error */
      long got = 0;
      while (got < n) {
        long r = CALL("read", fd, n - got, 0, read(fd, buf, n - got));
        if (r <= 0) break;
        got += r;
      }
    }
    free(buf);
    return;
  }
  if (IS("wr") || IS("wv") || IS("sn") || IS("snd") || IS("st") || IS("std") || IS("sm") || IS("smd") || IS("wa")) {
    char* buf = malloc(n + 8);
    memset(buf, 0x5a, n);
    long h = n / 3;
    struct iovec iov[2] = {{buf, h}, {buf + h, n - h}};
    if (IS("wr")) CALL("write", fd, n, 0, write(fd, buf, n));
    else if (IS("wv")) CALL("writev", fd, n, 0, writev(fd, iov, 2));
    else if (IS("sn")) CALL("send", fd, n, 0, send(fd, buf, n, 0));
    else if (IS("snd")) CALL("send", fd, n, 1, send(fd, buf, n, MSG_DONTWAIT));
    else if (IS("st")) CALL("sendto", fd, n, 0, sendto(fd, buf, n, 0, NULL, 0));
    else if (IS("std")) CALL("sendto", fd, n, 1, sendto(fd, buf, n, MSG_DONTWAIT, NULL, 0));
    else if (IS("sm") || IS("smd")) {
      struct msghdr m;
      memset(&m, 0, sizeof m);
      m.msg_iov = iov;
      m.msg_iovlen = 2;
      int fl = IS("smd") ? MSG_DONTWAIT : 0;
      CALL("sendmsg", fd, n, fl != 0, sendmsg(fd, &m, fl));
    } else { /* wa: write until n bytes or error */
      long put = 0;
      while (put < n) {
        long r = CALL("write", fd, n - put, 0, write(fd, buf, n - put));
        if (r <= 0) break;
        put += r;
      }
    }
    free(buf);
    return;
  }
  if (IS("nb")) { CALL("fcntl_nb", fd, O_NONBLOCK, 0, fcntl(fd, F_SETFL, O_NONBLOCK)); return; }
  if (IS("nbo") || IS("bl")) {
    long g = CALL("fcntl_getfl", fd, 0, 0, fcntl(fd, F_GETFL));
    if (g < 0) g = 0;
    /* (F_SETFL with exactly O_NONBLOCK is the shim's special case, whatever the idiom) */
    if (IS("nbo")) CALL((g | O_NONBLOCK) == O_NONBLOCK ? "fcntl_nb" : "fcntl_nbo", fd, g | O_NONBLOCK, 0, fcntl(fd, F_SETFL, g | O_NONBLOCK));
    else CALL("fcntl_bl", fd, g & ~O_NONBLOCK, 0, fcntl(fd, F_SETFL, g & ~O_NONBLOCK));
    return;
  }
  if (IS("fio")) {
    int v = (int)a1;
    CALL("ioctl_fionbio", fd, v, 0, ioctl(fd, FIONBIO, &v));
    return;
  }
  if (IS("cl")) { CALL("close", fd, 0, 0, close(fd)); return; }
  if (IS("shw")) { CALL("shutdown", fd, 0, 0, shutdown(fd, SHUT_WR)); return; }
  if (IS("acc")) {
    long r = CALL("accept", fd, 0, 0, accept(fd, NULL, NULL));
    int slot = (int)a1;
    if (slot >= 0 && slot < EPMAX) ep[slot] = (int)r;
    if (r >= 0 && !mode_ref) {
      struct sockaddr_in pa;
      socklen_t pl = sizeof pa;
      if (!getpeername((int)r, (struct sockaddr*)&pa, &pl)) {
        int port = ntohs(pa.sin_port);
        for (int k = 0; k < FDT; k++)
          if (local_port[k] == port) { pair_acc((int)r, k); local_port[k] = 0; break; }
      }
    }
    return;
  }
  if (IS("conn")) {
    int slot = (int)a1;
    long s = CALL("socket", -1, 0, 0, socket(AF_INET, SOCK_STREAM, 0));
    if (slot >= 0 && slot < EPMAX) ep[slot] = (int)s;
    if (s < 0) return;
    struct sockaddr_in a;
    addr_of(epi, &a);
    /* the port is needed for pairing BEFORE the peer can accept: bind to an ephemeral port first */
    struct sockaddr_in la;
    memset(&la, 0, sizeof la);
    la.sin_family = AF_INET;
    la.sin_addr.s_addr = htonl(INADDR_LOOPBACK);
    bind((int)s, (struct sockaddr*)&la, sizeof la);
    socklen_t ll = sizeof la;
    if (!getsockname((int)s, (struct sockaddr*)&la, &ll) && fd_ok((int)s)) local_port[s] = ntohs(la.sin_port);
    CALL("connect", (int)s, 0, 0, connect((int)s, (struct sockaddr*)&a, sizeof a));
    return;
  }
  if (IS("cx")) {
    struct sockaddr_in a;
    addr_of((int)a1, &a);
    CALL("connect", fd, 0, 0, connect(fd, (struct sockaddr*)&a, sizeof a));
    return;
  }
  if (IS("sp")) {
    int sv[2] = {-1, -1};
    long r = CALL("socketpair", -1, 0, 0, socketpair(AF_UNIX, SOCK_STREAM, 0, sv));
    int slot = (int)a1;
    if (slot >= 0 && slot + 1 < EPMAX) { ep[slot] = sv[0]; ep[slot + 1] = sv[1]; }
    if (!r) pair(sv[0], sv[1]);
    return;
  }
  if (IS("pp")) {
    int pv[2] = {-1, -1};
    long r = CALL("pipe", -1, 0, 0, pipe(pv));
    int slot = (int)a1;
    if (slot >= 0 && slot + 1 < EPMAX) { ep[slot] = pv[0]; ep[slot + 1] = pv[1]; }
    if (!r) pair(pv[0], pv[1]);
    return;
  }
  fprintf(stderr, "unknown op %s\n", op);
  exit(2);
  (void)last_errno;
  (void)a2;
}

/* ------------------------------------------------------------------ setup */
VH_NOINSTR static void setup_objects(const char* setup) {
  for (int k = 0; k < EPMAX; k++) ep[k] = -1;
  for (int k = 0; k < FDT; k++) peer_of[k] = -1;
  char* dup = strdup(setup);
  char* save = NULL;
  for (char* o = strtok_r(dup, ",", &save); o; o = strtok_r(NULL, ",", &save)) {
    long arg = atol(o + 1);
    if (*o == 'S') {
      int sv[2];
      vr_note("call socketpair -1 0 0");
      int rr = socketpair(AF_UNIX, SOCK_STREAM, 0, sv);
      vr_note("ret socketpair %d %d", rr, rr < 0 ? errno : 0);
      if (rr) { perror("socketpair"); exit(2); }
      if (arg > 0) {
        int v = (int)arg;
        setsockopt(sv[0], SOL_SOCKET, SO_SNDBUF, &v, sizeof v);
        setsockopt(sv[1], SOL_SOCKET, SO_SNDBUF, &v, sizeof v);
      }
      pair(sv[0], sv[1]);
      vr_note("obj S %d %d %d %d", nep, sv[0], nep + 1, sv[1]);
      ep[nep++] = sv[0];
      ep[nep++] = sv[1];
    } else if (*o == 'P') {
      int pv[2];
      vr_note("call pipe -1 0 0");
      int rr = pipe(pv);
      vr_note("ret pipe %d %d", rr, rr < 0 ? errno : 0);
      if (rr) { perror("pipe"); exit(2); }
      if (arg > 0) syscall(SYS_fcntl, pv[1], F_SETPIPE_SZ, (int)arg); /* not through the shim */
      peer_of[pv[0]] = pv[1]; /* the read end reads what was written into the write end */
      vr_note("obj P %d %d %d %d", nep, pv[0], nep + 1, pv[1]);
      ep[nep++] = pv[0];
      ep[nep++] = pv[1];
    } else if (*o == 'L') {
      vr_note("call socket -1 0 0");
      int s = socket(AF_INET, SOCK_STREAM, 0);
      vr_note("ret socket %d %d", s, s < 0 ? errno : 0);
      struct sockaddr_in a;
      memset(&a, 0, sizeof a);
      a.sin_family = AF_INET;
      a.sin_addr.s_addr = htonl(INADDR_LOOPBACK);
      if (s < 0 || bind(s, (struct sockaddr*)&a, sizeof a) || listen(s, 16)) { perror("listen"); exit(2); }
      socklen_t l = sizeof a;
      getsockname(s, (struct sockaddr*)&a, &l);
      lport[nep] = ntohs(a.sin_port);
      vr_note("obj L %d %d", nep, s);
      ep[nep++] = s;
    }
  }
  /* a descriptor number that is certainly closed and never handed out again (the kernel
   * allocates the lowest free number; the harness stays far below 60) */
  syscall(SYS_dup3, 2, closed_fd, 0);
  syscall(SYS_close, closed_fd);
}

/* ------------------------------------------------------------------ cells */
#ifndef IO_NATIVE
VH_NOINSTR static void reg_wait_info(long idx, const char* nm) {
  char* base = (char*)vw_wait_info_base() + idx * (long)vw_wait_info_stride();
  vr_reg(base + vw_wait_info_off_events(), 8, "%s.ea", nm);
  vr_reg(base + vw_wait_info_off_spinlock(), 8, "%s.lock", nm);
  vr_reg(base + vw_wait_info_off_waiters(), 8, "%s.waiters", nm);
}
VH_NOINSTR static void register_cells(void) {
  char nm[24];
  char* fi = vw_fd_info_base();
  long mx = (long)vw_io_max_fd();
  for (int k = 0; k < 8; k++) vr_reg(fi + 8 * k, 8, "FI%d", k);
  /* guard zones of the bounds oracle: the words just outside fd_info[0, max_fd) */
  vr_reg(fi - 8, 8, "FIlo");
  vr_reg(fi + ((mx + 7) & ~7L), 8, "FIhi");
  vr_reg(fi + ((mx + 7) & ~7L) + 8, 8, "FIhi2");
  for (int fd = 0; fd < 64; fd++) {
    snprintf(nm, sizeof nm, "W%d", fd);
    reg_wait_info(fd, nm);
  }
  long wmx = vw_event_max_fd();
  reg_wait_info(-1, "Wlo");
  for (int j = 0; j < 6; j++) {
    snprintf(nm, sizeof nm, "Whi%d", j);
    reg_wait_info(wmx + j, nm);
  }
}
VH_NOINSTR static void reg_fiber(fiber_t* f) {
  int id = *(int*)f->context.tsan_fiber;
  vr_obj(f, sizeof *f, "F%d", id);
  vr_reg(&f->state, sizeof f->state, "F%d.state", id);
  vr_reg((void*)&f->scratch, 8, "F%d.scratch", id);
}
#else
static void register_cells(void) {}
static void reg_fiber(fiber_t* f) { (void)f; }
#endif

/* ------------------------------------------------------------------ running */
static void* fiber_main(void* arg) {
  int t = (int)(long)arg;
#ifdef IO_NATIVE
  n_fid = 16 + t;
#endif
  vr_note("fiber start %d", t);
  for (int i = 0; i < nops[t]; i++) do_op(t, i, ops[t][i]);
  vr_note("fiber end %d", t);
  if (__sync_add_and_fetch(&done_count, 1) == nfib) {
    vr_set_done();
    vr_note("all done");
    vr_finish(dataerr ? "DATAERR" : "OK");
  }
#ifdef IO_NATIVE
  n_fid = 0;
#endif
  return NULL;
}

VH_NOINSTR static void* ref_thread_main(void* arg) {
  int t = (int)(long)arg;
  fiber_io_lock_thread();
  for (int i = 0; i < nops[t]; i++) do_op(t, i, ops[t][i]);
  return NULL;
}

VH_NOINSTR static void on_segv(int sig) {
  static int again;
  if (again++) _exit(4);
  vr_note("SEGV signal %d in fiber %d", sig, vr_fiber());
  vr_finish("SEGV");
}

VH_NOINSTR int main(int argc, char** argv) {
  if (argc < 5) {
    fprintf(stderr, "usage: io f|r <kthreads> <setup> <script>\n");
    return 2;
  }
  mode_ref = argv[1][0] == 'r';
  kthreads = atoi(argv[2]);
  parse_script(argv[4]);
  signal(SIGPIPE, SIG_IGN);
#ifdef IO_NATIVE
  nlog_open();
  __asan_set_error_report_callback(asan_cb);
#endif
  struct sigaction sa;
  memset(&sa, 0, sizeof sa);
  sa.sa_handler = on_segv;
  sigaction(SIGSEGV, &sa, NULL);
  sigaction(SIGBUS, &sa, NULL);

  if (mode_ref) {
    /* the runtime is NOT started: plain blocking descriptors, plain kernel threads that the
     * deterministic scheduler does not know about (created with the real pthread_create) */
    int (*real_create)(pthread_t*, const pthread_attr_t*, void* (*)(void*), void*) = dlsym(RTLD_NEXT, "pthread_create");
    int (*real_join)(pthread_t, void**) = dlsym(RTLD_NEXT, "pthread_join");
    fiber_io_lock_thread();
    vr_note("init ioref %d", nfib);
    setup_objects(argv[3]);
    alarm(25);
    pthread_t th[MAXF];
    for (int t = 0; t < nfib; t++) recs[t] = calloc(4096, sizeof(rec_t));
    for (int t = 0; t < nfib; t++) real_create(&th[t], NULL, ref_thread_main, (void*)(long)t);
    for (int t = 0; t < nfib; t++) real_join(th[t], NULL);
    for (int t = 0; t < nfib; t++)
      for (int k = 0; k < nrec[t]; k++)
        vr_note("ref %d %d %s %ld %d", recs[t][k].t, recs[t][k].i, recs[t][k].name, recs[t][k].r, recs[t][k].e);
    vr_finish("OK");
  }

  fiber_manager_init(kthreads);
  io_max_fd = (long)vw_io_max_fd();
  vw_io_hooks_t hooks = {h_read, h_readv, h_write, h_writev, h_socket, h_socketpair, h_accept, h_send, h_sendto,
                         h_sendmsg, h_recvfrom, h_recv, h_recvmsg, h_connect, h_pipe, h_fcntl, h_ioctl, h_close};
  vw_io_hook(&hooks, &real);
  register_cells();
  vr_note("init io %d %ld %ld %d %d %d", kthreads, io_max_fd, vw_event_max_fd(), vw_io_flag_blocking(),
          vw_io_flag_waitable(), vw_event_fd());
  setup_objects(argv[3]);
  vr_note("setup done");
  fiber_t* fibers[MAXF];
  for (int t = 0; t < nfib; t++) {
    fibers[t] = fiber_create_no_sched(65536, fiber_main, (void*)(long)t);
    reg_fiber(fibers[t]);
    fiber_detach(fibers[t]);
  }
  vr_note("spawn %d", nfib);
  for (int t = 0; t < nfib; t++) fiber_manager_schedule(fiber_manager_get(), fibers[t]);
  /* park the main fiber for good (second lock of a held mutex): kernel thread 0 then behaves
   * like every other one (runs fibers, polls for events when idle).  The script fiber that
   * finishes last ends the run.  (fiber_join is avoided: its rendezvous spins on unregistered
   * cells, which the deterministic scheduler cannot see.) */
  static fiber_mutex_t park;
  fiber_mutex_init(&park);
  fiber_mutex_lock(&park);
  fiber_mutex_lock(&park);
  vr_finish("UNPARKED");
}
