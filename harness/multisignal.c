/* multisignal.c — correspondence harness for fiber_multi_signal_t (include/fiber_signal.h),
 * the multi-signal clause of C20 (and the wake handshake shared with C11).
 * usage: multisignal <kernel threads> <script>
 *
 * Client contract (fiber_signal.h): any number of fibers may wait, any number may raise.
 * A raise releases ONE waiter or latches RAISED; latched raises coalesce.  Two deadlock-free
 * script families (the generator never mixes them):
 *
 *  token mode   t  take one token:  loop { if (try_take()) break; wait(&ms); }
 *                                   then, if tokens are left, raise(&ms)   (baton passing:
 *                                   needed because pending raises coalesce)
 *               p  publish one token, THEN raise
 *               R  raise without publishing (spurious raise: must be harmless)
 *     total t == total p  ⇒  a fiber asleep for ever while a token is there = a dropped raise
 *
 *  strict mode  W  wait unconditionally            S  raise_strict (spins until it released
 *               total W == total S; no plain raise      exactly one waiter)
 *                                                   s  the same after yielding until a waiter
 *                                                      is listed
 *     raise_strict busy-waits without yielding its kernel thread: ONE fiber raises in strict
 *     mode, and on a single kernel thread it uses `s` only.
 *
 *  y = yield in both.
 *
 * Fibers are created JOINABLE and never joined, so a finished fiber (and its list node) is
 * not freed while raises are still running: fiber_multi_signal_raise reads head->next of a
 * possibly stale head (the TODO in fiber_signal.h); the documented assumption is that fibers
 * are not freed meanwhile (with detached fibers the harness did observe that read returning
 * recycled heap contents; the CAS2 that follows fails because the counter moved on).  */
#include "rtcommon.h"
#include "fiber_signal.h"

static fiber_multi_signal_t ms;
static volatile long tokens;


/* fiber_t.scratch is shared by several mechanisms ("be sure mechanisms do not conflict"): an
 * fd wait ended by close() really leaves (void*)-1 == FIBER_SIGNAL_READY_TO_WAKE there.  So
 * before every wait the harness dirties the waiting fiber's own scratch with that value, by a
 * store the instrumentation does not see (no event, no scheduling point): a wait that relied
 * on scratch being NULL on entry would be woken before its context is saved. */
VH_NOINSTR static void dirty_own_scratch(void) {
  fiber_manager_get()->current_fiber->scratch = (void*)(intptr_t)-1;
}

static int try_take(void) {
  long v = __atomic_load_n(&tokens, __ATOMIC_ACQUIRE);
  while (v > 0) {
    if (__atomic_compare_exchange_n(&tokens, &v, v - 1, 0, __ATOMIC_ACQ_REL, __ATOMIC_ACQUIRE)) return 1;
  }
  return 0;
}

static void do_raise(void) {
  vr_note("call raise");
  int r = fiber_multi_signal_raise(&ms);
  vr_note("ret raise %d", r);
}

static void do_op(int t, const char* op) {
  switch (op[0]) {
    case 't':
      vr_note("call take");
      while (!try_take()) {
        vr_note("call wait");
        dirty_own_scratch();
        fiber_multi_signal_wait(&ms);
        vr_note("ret wait");
      }
      vr_note("took");
      if (__atomic_load_n(&tokens, __ATOMIC_ACQUIRE) > 0) do_raise();
      vr_note("ret take");
      break;
    case 'p':
      vr_note("call publish");
      __atomic_fetch_add(&tokens, 1, __ATOMIC_ACQ_REL);
      do_raise();
      break;
    case 'R':
      do_raise();
      break;
    case 'W':
      vr_note("call wait");
      dirty_own_scratch();
      fiber_multi_signal_wait(&ms);
      vr_note("ret wait");
      break;
    case 's':
      /* polite strict raise: raise_strict busy-waits WITHOUT yielding the kernel thread, so
       * first yield until a waiter is listed (only one fiber raises in strict mode, so the
       * waiter seen here cannot be taken by anybody else) */
      while (1) {
        mpsc_fifo_node_t* h = __atomic_load_n(&ms.data.head, __ATOMIC_ACQUIRE);
        if (h && h != FIBER_MULTI_SIGNAL_RAISED) break;
        fiber_yield();
      }
      /* fall through */
    case 'S':
      vr_note("call strict");
      fiber_multi_signal_raise_strict(&ms);
      vr_note("ret strict");
      break;
    case 'y':
      fiber_yield();
      break;
  }
  (void)t;
}

/* vh_rt_run of rtcommon.h without the fiber_detach */
VH_NOINSTR static void ms_rt_run(vh_op_fn fn) {
  vh_do_op = fn;
  for (int t = 0; t < vh_script.nfibers; t++) {
    vh_fibers[t] = fiber_create_no_sched(65536, vh_fiber_main, (void*)(long)t);
    vh_reg_fiber(vh_fibers[t], t);
  }
  vr_note("spawn %d", vh_script.nfibers);
  for (int t = 0; t < vh_script.nfibers; t++) fiber_manager_schedule(fiber_manager_get(), vh_fibers[t]);
  while (vh_done_count < vh_script.nfibers) {
    fiber_yield();
    vr_relax();
  }
  vr_set_done();
}

VH_NOINSTR int main(int argc, char** argv) {
  if (argc < 3) return 2;
  int k = atoi(argv[1]);
  vh_parse(argv[2]);
  fiber_manager_init(k);
  vh_rt_prepare(); /* run queues named, main fiber registered: the runtime model can follow this log too */
  VH_DIRTY(ms);
  fiber_multi_signal_init(&ms);
  /* the (counter, head) pair is ONE 16-byte cell: counter prints as `ms`, head as `ms+8` */
  vr_reg(&ms, 16, "ms");
  vr_reg((void*)&tokens, 8, "tokens");
  vr_note("init multisignal %d", k);
  ms_rt_run(do_op);
  vr_finish("OK");
}
