/* multisignal.c — correspondence harness for fiber_multi_signal_t (include/fiber_signal.h),
 * the multi-signal clause of C20 (and the wake handshake shared with C11).
 * usage: multisignal <kernel threads> <script>
 *
 * Client contract (fiber_signal.h): any number of fibers may wait, any number may raise.
 * A raise releases ONE waiter or latches RAISED; latched raises coalesce.  Two deadlock-free
 * script families (the generator never mixes them):
 *
 *  token mode   t  take one token:  loop { if (try_take()) break; wait(&ms); }
 *                                   then, if tokens are left, raise(&ms)   (baton passing:
 *                                   needed because pending raises coalesce)
 *               p  publish one token, THEN raise
 *               R  raise without publishing (spurious raise: must be harmless)
 *     total t == total p  ⇒  a fiber asleep for ever while a token is there = a dropped raise
 *
 *  strict mode  W  wait unconditionally            S  raise_strict (spins until it released
 *               total W == total S; no plain raise      exactly one waiter)
 *                                                   s  the same after yielding until a waiter
 *                                                      is listed
 *     raise_strict busy-waits without yielding its kernel thread: ONE fiber raises in strict
 *     mode, and on a single kernel thread it uses `s` only.
 *
 *  y = yield in both; z = final rendez-vous (appended to every fiber by the generator).  */
#include "rtcommon.h"
#include "fiber_signal.h"

static fiber_multi_signal_t ms;
static volatile long tokens;
static volatile int arrived;

static int try_take(void) {
  long v = __atomic_load_n(&tokens, __ATOMIC_ACQUIRE);
  while (v > 0) {
    if (__atomic_compare_exchange_n(&tokens, &v, v - 1, 0, __ATOMIC_ACQ_REL, __ATOMIC_ACQUIRE)) return 1;
  }
  return 0;
}

static void do_raise(void) {
  vr_note("call raise");
  int r = fiber_multi_signal_raise(&ms);
  vr_note("ret raise %d", r);
}

static void do_op(int t, const char* op) {
  switch (op[0]) {
    case 't':
      vr_note("call take");
      while (!try_take()) {
        vr_note("call wait");
        fiber_multi_signal_wait(&ms);
        vr_note("ret wait");
      }
      vr_note("took");
      if (__atomic_load_n(&tokens, __ATOMIC_ACQUIRE) > 0) do_raise();
      vr_note("ret take");
      break;
    case 'p':
      vr_note("call publish");
      __atomic_fetch_add(&tokens, 1, __ATOMIC_ACQ_REL);
      do_raise();
      break;
    case 'R':
      do_raise();
      break;
    case 'W':
      vr_note("call wait");
      fiber_multi_signal_wait(&ms);
      vr_note("ret wait");
      break;
    case 's':
      /* polite strict raise: raise_strict busy-waits WITHOUT yielding the kernel thread, so
       * first yield until a waiter is listed (only one fiber raises in strict mode, so the
       * waiter seen here cannot be taken by anybody else) */
      while (1) {
        mpsc_fifo_node_t* h = __atomic_load_n(&ms.data.head, __ATOMIC_ACQUIRE);
        if (h && h != FIBER_MULTI_SIGNAL_RAISED) break;
        fiber_yield();
      }
      /* fall through */
    case 'S':
      vr_note("call strict");
      fiber_multi_signal_raise_strict(&ms);
      vr_note("ret strict");
      break;
    case 'y':
      fiber_yield();
      break;
    case 'z':
      /* end-of-script rendez-vous: keeps every fiber (and its list node) alive until all
       * raises are over — fiber_multi_signal_raise reads head->next of a possibly stale
       * head (the TODO in fiber_signal.h); the documented assumption is that fibers are
       * not freed meanwhile.  Not part of the test: unregistered counter. */
      __sync_fetch_and_add(&arrived, 1);
      while (arrived < vh_script.nfibers) {
        fiber_yield();
        vr_relax();
      }
      break;
  }
  (void)t;
}

VH_NOINSTR int main(int argc, char** argv) {
  if (argc < 3) return 2;
  int k = atoi(argv[1]);
  vh_parse(argv[2]);
  fiber_manager_init(k);
  fiber_multi_signal_init(&ms);
  /* the (counter, head) pair is ONE 16-byte cell: counter prints as `ms`, head as `ms+8` */
  vr_reg(&ms, 16, "ms");
  vr_reg((void*)&tokens, 8, "tokens");
  vr_note("init multisignal %d", k);
  vh_rt_run(k, do_op, 0);
  vr_finish("OK");
}
