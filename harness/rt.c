/* rt.c — whole-runtime harness for C01 / C02 (runtime half): a mixed program over yield,
 * mutex (P-saving parking), semaphore (P-defer, MPMC queue), sleep (P-lock, sleep spinlock)
 * run by the real scheduler on 1..N kernel threads.  The log carries run-queue API events
 * (rqpush/rqpop/rqsteal), every access to every fiber's state word, and the context
 * switch / create / destroy events; the runtime model `Rt` consumes exactly those.
 * usage: rt <kernel threads> <script>; ops: y yield, l/u mutex lock/unlock, w/p semaphore
 * wait/post, s sleep one tick, r<k>/x<k> read / write one byte on pipe k (k = 0, 1) through the
 * library's read()/write() shims: a read on an empty pipe parks the fiber in
 * fiber_wait_for_event (P-lock on the descriptor's spinlock) until a poll on some kernel
 * thread reports the descriptor readable; e = fiber_wait_for_event on a descriptor epoll refuses
 * (a directory: EPERM) - the call must fail and leave no trace of the caller behind; c = close
 * that descriptor through the close() shim (which wakes whoever is recorded as waiting on it) and
 * open it again */
#define VH_REG_RESULT 1
#include "rtcommon.h"
#include "fiber_event.h"
#include "fiber_mutex.h"
#include "fiber_semaphore.h"
#include <fcntl.h>
#include <unistd.h>


static fiber_mutex_t mtx;
static fiber_semaphore_t sem;
static int holding[VH_MAXF];
static int pipes[2][2];
static volatile int dirfd_ = -1;

static void do_op(int t, const char* op) {
  switch (op[0]) {
    case 'y': fiber_yield(); break;
    case 'l': fiber_mutex_lock(&mtx); holding[t] = 1; break;
    case 'u': if (holding[t]) { holding[t] = 0; fiber_mutex_unlock(&mtx); } break;
    case 'w': fiber_semaphore_wait(&sem); break;
    case 'p': fiber_semaphore_post(&sem); break;
    case 's': fiber_sleep(0, 1000); break;
    case 'r': { char c = 0; int k = op[1] == '1'; if (read(pipes[k][0], &c, 1) != 1) vr_finish("IOERR"); break; }
    case 'e': {
      int fd = dirfd_;
      if (fd >= 0 && fiber_wait_for_event(fd, FIBER_POLL_IN) != FIBER_ERROR) vr_finish("IOERR");
      break;
    }
    case 'c': {
      int fd = dirfd_;
      dirfd_ = -1;
      if (fd >= 0) close(fd);
      fiber_yield();
      dirfd_ = open("/", O_RDONLY | O_DIRECTORY);
      break;
    }
    case 'x': { char c = 'x'; int k = op[1] == '1'; if (write(pipes[k][1], &c, 1) != 1) vr_finish("IOERR"); break; }
  }
}

VH_NOINSTR int main(int argc, char** argv) {
  if (argc < 3) return 2;
  int k = atoi(argv[1]);
  vh_parse(argv[2]);
  fiber_manager_init(k);
  vh_rt_prepare();
  fiber_mutex_init(&mtx);
  /* posts by the script always outnumber waits (generator), plus slack */
  fiber_semaphore_init(&sem, 0);
  if (pipe(pipes[0]) || pipe(pipes[1])) return 2;
  dirfd_ = open("/", O_RDONLY | O_DIRECTORY);
  vr_note("init rt %d", k);
  vh_rt_run_join(k, do_op, 0);
  /* let the system go quiescent once (the idle monitor looks at the run queues then) */
  fiber_sleep(0, 1000);
  vr_finish("OK");
}
