/* lifo.c — correspondence harness for include/mpmc_lifo.h (C20, part lifo).
 * usage: lifo <owners> <script>
 *   owners = "0,1,1": node i+1 (n1, n2, ...) is initially owned by script thread owners[i]
 *   ops: p<v> = push the node this thread acquired most recently, carrying value v
 *               (no-op when the thread owns no node), o = pop (the thread keeps the node).
 * Immediate reuse is the point: a popped node is pushed again by the very next p of that
 * thread, with 2-3 nodes in total, so a node cycles while another thread still holds a
 * stale (counter, head) snapshot. */
#include "common.h"
#include "mpmc_lifo.h"

#define MAXN 16
static mpmc_lifo_t lifo;
static mpmc_lifo_node_t* nodes[MAXN + 1];
static int nn;
/* per-thread private pools (only ever touched by their thread after start-up) */
static mpmc_lifo_node_t* own[VH_MAXT][MAXN];
static int nown[VH_MAXT];

static void do_pop(int t) {
  vr_note("call pop");
  mpmc_lifo_node_t* n = mpmc_lifo_pop(&lifo);
  if (n) {
    long v = (long)n->data;
    vr_note("ret pop %ld", v);
    own[t][nown[t]++] = n;
  } else {
    vr_note("ret pop 0");
  }
}

static void do_op(int t, const char* op) {
  if (op[0] == 'p') {
    if (!nown[t]) return;
    long v = atol(op + 1);
    mpmc_lifo_node_t* n = own[t][--nown[t]];
    vr_note("call push %ld", v);
    n->data = (void*)v;
    mpmc_lifo_push(&lifo, n);
    vr_note("ret push 1");
  } else {
    do_pop(t);
  }
}

int main(int argc, char** argv) {
  if (argc < 3) return 2;
  vh_parse(argv[2]);
  VH_DIRTY(lifo);
  mpmc_lifo_init(&lifo);
  char note[256] = "init lifo";
  char* dup = strdup(argv[1]);
  char* save = NULL;
  for (char* o = strtok_r(dup, ",", &save); o && nn < MAXN; o = strtok_r(NULL, ",", &save)) {
    int t = atoi(o);
    if (t < 0 || t >= VH_MAXT) return 2;
    mpmc_lifo_node_t* n = calloc(1, sizeof *n);
    nodes[++nn] = n;
    vr_obj(n, sizeof *n, "n%d", nn);
    vr_reg(&n->next, 8, "next%d", nn);
    vr_reg(&n->data, 8, "data%d", nn);
    own[t][nown[t]++] = n;
    snprintf(note + strlen(note), sizeof note - strlen(note), " %d", t);
  }
  /* the (counter, head) pair is ONE 16-byte cell: the counter prints as hd/8, the pointer as hd+8/8 */
  vr_reg(&lifo, 16, "hd");
  vr_note("%s", note);
  vh_run(do_op);
  /* drain single-threaded so the monitor can tell a lost node from a queued one */
  for (;;) {
    int before = nown[0];
    do_pop(0);
    if (nown[0] == before) break;
  }
  vr_finish("OK");
}
