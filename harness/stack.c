/* stack.c — correspondence harness for include/mpmc_stack.h (C20, part stack).
 * usage: stack <owners> <script>
 *   owners = "0,1,1": node i+1 (n1, n2, ...) is initially owned by script thread owners[i]
 *   ops: p<v> = mpmc_stack_push of the node acquired most recently, carrying value v
 *               (no-op when the thread owns no node)
 *        t<b>:<v> = mpmc_stack_push_timeout of that node with value v and an attempt budget
 *               of b >= 1 CAS tries (notes "call pushto <v> <b>" / "ret pushto <r>"); when
 *               it gives up (r = 0 = MPMC_RETRY) the node STAYS with the caller, who may push
 *               it again later (with a fresh value).  b = 0 is rejected: `tries` is a size_t
 *               that is decremented before it is tested, so 0 wraps to SIZE_MAX tries.
 *        f    = mpmc_stack_fifo_flush, l = mpmc_stack_lifo_flush; the flushing thread then
 *               walks the returned (now private) list: "item <v>" per node in list order,
 *               and keeps the nodes for its next pushes. */
#include "common.h"
#include "mpmc_stack.h"

#define MAXN 16
static mpmc_stack_t stk;
static mpmc_stack_node_t* nodes[MAXN + 1];
static int nn;
static mpmc_stack_node_t* own[VH_MAXT][MAXN];
static int nown[VH_MAXT];

static int do_flush(int t, int fifo) {
  vr_note("call flush %s", fifo ? "fifo" : "lifo");
  mpmc_stack_node_t* n = fifo ? mpmc_stack_fifo_flush(&stk) : mpmc_stack_lifo_flush(&stk);
  int k = 0;
  while (n) {
    long v = (long)mpmc_stack_node_get_data(n);
    vr_note("item %ld", v);
    mpmc_stack_node_t* nx = n->next;
    own[t][nown[t]++] = n;
    n = nx;
    k++;
  }
  vr_note("ret flush %d", k);
  return k;
}

static void do_op(int t, const char* op) {
  if (op[0] == 'p') {
    if (!nown[t]) return;
    long v = atol(op + 1);
    mpmc_stack_node_t* n = own[t][--nown[t]];
    vr_note("call push %ld", v);
    mpmc_stack_node_init(n, (void*)v);
    mpmc_stack_push(&stk, n);
    vr_note("ret push 1");
  } else if (op[0] == 't') {
    if (!nown[t]) return;
    long b = atol(op + 1);
    const char* c = strchr(op, ':');
    long v = c ? atol(c + 1) : 0;
    if (b < 1 || v <= 0) vr_finish("BADSCRIPT");
    mpmc_stack_node_t* n = own[t][--nown[t]];
    vr_note("call pushto %ld %ld", v, b);
    mpmc_stack_node_init(n, (void*)v);
    int r = mpmc_stack_push_timeout(&stk, n, (size_t)b);
    vr_note("ret pushto %d", r);
    /* gave up: the node was not published and is still ours */
    if (r != MPMC_SUCCESS) own[t][nown[t]++] = n;
  } else {
    do_flush(t, op[0] == 'f');
  }
}

int main(int argc, char** argv) {
  if (argc < 3) return 2;
  vh_parse(argv[2]);
  VH_DIRTY(stk);
  mpmc_stack_init(&stk);
  char note[256] = "init stack";
  char* dup = strdup(argv[1]);
  char* save = NULL;
  for (char* o = strtok_r(dup, ",", &save); o && nn < MAXN; o = strtok_r(NULL, ",", &save)) {
    int t = atoi(o);
    if (t < 0 || t >= VH_MAXT) return 2;
    mpmc_stack_node_t* n = calloc(1, sizeof *n);
    nodes[++nn] = n;
    vr_obj(n, sizeof *n, "n%d", nn);
    vr_reg(&n->next, 8, "next%d", nn);
    vr_reg(&n->data, 8, "data%d", nn);
    own[t][nown[t]++] = n;
    snprintf(note + strlen(note), sizeof note - strlen(note), " %d", t);
  }
  vr_reg(&stk.head, 8, "head");
  vr_note("%s", note);
  vh_run(do_op);
  /* drain single-threaded so the monitor can tell a lost node from a queued one */
  do_flush(0, 1);
  vr_finish("OK");
}
