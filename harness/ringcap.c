/* ringcap.c — capacity harness for include/lockfree_ring_buffer.h (C16: "for all capacities 2^k").
 * The access-level harness (ring.c) registers every slot and therefore uses small k.  This one
 * asks for EVERY capacity the constructor accepts (its assert admits 1 <= k < 32) and checks the
 * one thing the access-level model takes for granted: that the object really has 2^k slots.
 *   usage: ringcap <k>
 * - lockfree_ring_buffer_create(k) may refuse (NULL: status OK, note `refused`);
 * - otherwise the allocation must hold the header and 2^k pointers (malloc_usable_size), the
 *   recorded capacity and mask must be 2^k and 2^k - 1, and — with the counters placed so that
 *   the claimed slots are the LAST one and, after wrapping, the FIRST one — two pushes and two
 *   pops must hand the values back in order (touches two pages of a possibly 16 GiB object).
 * Statuses: OK, UNDERSIZED (allocation smaller than the capacity it declares: the first access
 * beyond it corrupts the heap — not attempted), BADFIELDS, LOST. */
#include <malloc.h>
#include <stddef.h>
#include <stdint.h>

#include "common.h"
#include "lockfree_ring_buffer.h"

__attribute__((no_sanitize_thread, noinline)) static void set_base(lockfree_ring_buffer_t* rb, uint64_t b) {
  *(volatile uint64_t*)&rb->high = b;
  *(volatile uint64_t*)&rb->low = b;
}

int main(int argc, char** argv) {
  if (argc < 2) return 2;
  const unsigned k = (unsigned)atoi(argv[1]);
  const uint64_t want = (uint64_t)1 << k;
  vr_note("init ringcap %u", k);
  lockfree_ring_buffer_t* rb = lockfree_ring_buffer_create(k);
  if (!rb) {
    vr_note("refused %u", k);
    vr_finish("OK");
  }
  const size_t usable = malloc_usable_size(rb);
  const size_t need = offsetof(lockfree_ring_buffer_t, buffer) + (size_t)want * sizeof(void*);
  vr_note("capacity %u size %llu mask %llu usable %zu need %zu", k, (unsigned long long)rb->size,
          (unsigned long long)rb->power_of_2_mod, usable, need);
  if (rb->size != want || rb->power_of_2_mod != want - 1) vr_finish("BADFIELDS");
  if (usable < need) vr_finish("UNDERSIZED");
  set_base(rb, want - 1); /* next slot = the last one; the one after wraps to slot 0 */
  int ok = lockfree_ring_buffer_trypush(rb, (void*)11) && lockfree_ring_buffer_trypush(rb, (void*)22);
  void* a = lockfree_ring_buffer_trypop(rb);
  void* b = lockfree_ring_buffer_trypop(rb);
  vr_note("pushpop %d %ld %ld", ok, (long)a, (long)b);
  if (!ok || a != (void*)11 || b != (void*)22) vr_finish("LOST");
  lockfree_ring_buffer_destroy(rb);
  vr_finish("OK");
}
