/* rwlock.c — correspondence harness for src/fiber_rwlock.c (C07).
 * usage: rwlock <kernel threads> <script>
 * ops per fiber: r rdlock, w wrlock, R tryrdlock, W trywrlock, u unlock what I hold
 * (rdunlock or wrunlock; nothing if nothing is held), y yield.
 * Every successful acquisition runs a critical section (notes `cs enter r|w` / `cs exit`, a
 * yield inside so overlaps are visible).  Scripts are deadlock-free as long as every
 * acquisition is followed by `u` before the next acquisition (the generator guarantees it;
 * an acquisition op issued while holding is ignored here as a safety net). */
/* crowds: more than 1024 fibers waiting for one unlock (batch limits, field widths) */
#define VH_MAXF 1300
#include "rtcommon.h"
#include "fiber_rwlock.h"

static fiber_rwlock_t rw;
static volatile long shared; /* protected data: writers increment, readers read twice */
static int holding[VH_MAXF]; /* 0 nothing, 1 read, 2 write */

static void cs(int t, int mode) {
  vr_note("cs enter %c", mode == 2 ? 'w' : 'r');
  long v = shared;
  fiber_yield();
  if (mode == 2) {
    shared = v + 1;
    vr_note("cs exit w %ld", v + 1);
  } else {
    long v2 = shared;
    if (v2 != v) vr_note("cs torn %ld %ld", v, v2);
    vr_note("cs exit r %ld", v2);
  }
}

static void do_op(int t, const char* op) {
  switch (op[0]) {
    case 'r':
      if (holding[t]) break;
      vr_note("call rdlock");
      fiber_rwlock_rdlock(&rw);
      vr_note("ret rdlock");
      holding[t] = 1;
      cs(t, 1);
      break;
    case 'w':
      if (holding[t]) break;
      vr_note("call wrlock");
      fiber_rwlock_wrlock(&rw);
      vr_note("ret wrlock");
      holding[t] = 2;
      cs(t, 2);
      break;
    case 'R': {
      if (holding[t]) break;
      vr_note("call tryrdlock");
      int r = fiber_rwlock_tryrdlock(&rw);
      vr_note("ret tryrdlock %d", r == FIBER_SUCCESS);
      if (r == FIBER_SUCCESS) {
        holding[t] = 1;
        cs(t, 1);
      }
      break;
    }
    case 'W': {
      if (holding[t]) break;
      vr_note("call trywrlock");
      int r = fiber_rwlock_trywrlock(&rw);
      vr_note("ret trywrlock %d", r == FIBER_SUCCESS);
      if (r == FIBER_SUCCESS) {
        holding[t] = 2;
        cs(t, 2);
      }
      break;
    }
    case 'u':
      if (holding[t] == 1) {
        holding[t] = 0;
        vr_note("call rdunlock");
        fiber_rwlock_rdunlock(&rw);
        vr_note("ret rdunlock");
      } else if (holding[t] == 2) {
        holding[t] = 0;
        vr_note("call wrunlock");
        fiber_rwlock_wrunlock(&rw);
        vr_note("ret wrunlock");
      }
      break;
    case 'y':
      fiber_yield();
      break;
  }
}

VH_NOINSTR int main(int argc, char** argv) {
  if (argc < 3) return 2;
  int k = atoi(argv[1]);
  vh_parse(argv[2]);
  fiber_manager_init(k);
  VH_DIRTY(rw);
  fiber_rwlock_init(&rw);
  vr_reg(&rw.state.blob, 8, "rw");
  vr_reg((void*)&rw.read_waiters.head, 8, "RH");
  vr_reg(&rw.read_waiters.tail, 8, "RT");
  vr_obj(rw.read_waiters.tail, sizeof(mpsc_fifo_node_t), "RS");
  vr_reg((void*)&rw.read_waiters.tail->next, 8, "RS.next");
  vr_reg(&rw.read_waiters.tail->data, 8, "RS.data");
  vr_reg((void*)&rw.write_waiters.head, 8, "WH");
  vr_reg(&rw.write_waiters.tail, 8, "WT");
  vr_obj(rw.write_waiters.tail, sizeof(mpsc_fifo_node_t), "WS");
  vr_reg((void*)&rw.write_waiters.tail->next, 8, "WS.next");
  vr_reg(&rw.write_waiters.tail->data, 8, "WS.data");
  vr_note("init rwlock %d", k);
  vh_rt_run(k, do_op, 0);
  vr_finish("OK");
}
