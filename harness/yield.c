/* yield.c — harness for fiber_yield fairness (C10).
 * usage: yield <kernel threads> <script>; per fiber: y = fiber_yield().  Each fiber logs
 * `ran <i>` every time it gets the CPU back.  The main fiber (the kernel thread 0 context)
 * polls with fiber_yield() until all script fibers have finished — itself a yield-based
 * polling loop of the kind the property talks about.
 * Fibers that block and wake each other while others yield: b<k> = fiber_barrier_wait on the
 * 2-party barrier k (woken through an MPSC waiter queue), a<k> / r<k> = semaphore k wait /
 * post (woken through the MPMC waiter queue).  A woken fiber is handed to the scheduler like a
 * new one; where it is queued decides whether two fibers that keep waking each other can
 * starve the yielders.  With ONE kernel thread the harness knows who blocks and who is woken
 * (no preemption between scheduling events) and logs `block` before a call that will park the
 * caller and `sched <fiber>` before a call that will wake <fiber>; the scheduler model then
 * predicts the exact run order (model Sched).  With more kernel threads nobody announces
 * anything: model SchedN replays the run-queue events (rqpush / rqpop / rqsteal), the context
 * switches and the scheduler's accesses to the fiber state words of the log itself. */
/* many fibers: size-triggered scheduler paths (deque growth at 256 entries) */
#define VH_MAXF 600
#include "rtcommon.h"
#include "fiber_barrier.h"
#include "fiber_semaphore.h"

#define NPRIM 4
static fiber_barrier_t bars[NPRIM];
static fiber_semaphore_t sems[NPRIM];
/* ghost state, exact on one kernel thread only */
static int kthreads;
static int bar_waiter[NPRIM];           /* fiber id parked in barrier k, or -1 */
static int sem_avail[NPRIM];
static int sem_q[NPRIM][VH_MAXF], sem_qh[NPRIM], sem_qt[NPRIM];

static volatile int finished[VH_MAXF];
static long total_polls;

static void do_op(int t, const char* op) {
  if (op[0] == 'y') {
    vr_note("yield");
    fiber_yield();
    vr_note("resumed");
  } else if (op[0] == 'w') {
    /* yield-based polling loop: wait until script fiber j has executed its `f` op */
    int j = atoi(op + 1);
    while (!finished[j]) {
      vr_note("yield");
      fiber_yield();
      vr_note("resumed");
      vr_relax(); /* with several kernel threads this is a cross-thread spin loop */
      if (++total_polls > 3000) vr_finish("STARVED");
    }
  } else if (op[0] == 'f') {
    finished[t] = 1;
  } else if (op[0] == 'b') {
    int k = atoi(op + 1) % NPRIM;
    if (kthreads == 1) {
      if (bar_waiter[k] < 0) {
        bar_waiter[k] = vh_fid(vh_fibers[t]);
        vr_note("block");
      } else {
        vr_note("sched %d", bar_waiter[k]);
        bar_waiter[k] = -1;
      }
    }
    fiber_barrier_wait(&bars[k]);
    vr_note("resumed");
  } else if (op[0] == 'a') {
    int k = atoi(op + 1) % NPRIM;
    if (kthreads == 1) {
      if (sem_avail[k] > 0) sem_avail[k]--;
      else {
        sem_q[k][sem_qt[k]++ % VH_MAXF] = vh_fid(vh_fibers[t]);
        vr_note("block");
      }
    }
    fiber_semaphore_wait(&sems[k]);
    vr_note("resumed");
  } else if (op[0] == 'r') {
    int k = atoi(op + 1) % NPRIM;
    int woke = 0;
    if (kthreads == 1) {
      if (sem_qh[k] != sem_qt[k]) {
        /* a contended post wakes the oldest waiter and then yields ("be nice") */
        vr_note("sched %d", sem_q[k][sem_qh[k]++ % VH_MAXF]);
        vr_note("yield");
        woke = 1;
      } else sem_avail[k]++;
    }
    fiber_semaphore_post(&sems[k]);
    if (woke) vr_note("resumed");
  }
}

VH_NOINSTR int main(int argc, char** argv) {
  if (argc < 3) return 2;
  int k = atoi(argv[1]);
  vh_parse(argv[2]);
  fiber_manager_init(k);
  kthreads = k;
  vh_rt_prepare(); /* run queues named (@Q<k>a/b), main fiber named @F0 and F0.state registered: the
                    * N-thread scheduler model (SchedN) replays the run-queue events of this log */
  for (int i = 0; i < NPRIM; i++) {
    fiber_barrier_init(&bars[i], 2);
    fiber_semaphore_init(&sems[i], 0);
    bar_waiter[i] = -1;
  }
  vr_note("init sched %d", k);
  vh_do_op = do_op;
  for (int t = 0; t < vh_script.nfibers; t++) {
    vh_fibers[t] = fiber_create_no_sched(vh_script.nfibers > 64 ? 16384 : 65536, vh_fiber_main, (void*)(long)t);
    vh_reg_fiber(vh_fibers[t], t);
    fiber_detach(vh_fibers[t]);
  }
  for (int t = 0; t < vh_script.nfibers; t++) {
    vr_note("sched %d", vh_fid(vh_fibers[t]));
    fiber_manager_schedule(fiber_manager_get(), vh_fibers[t]);
  }
  long polls = 0;
  while (vh_done_count < vh_script.nfibers) {
    vr_note("yield");
    fiber_yield();
    vr_note("resumed");
    vr_relax();
    if (++polls > 6000) vr_finish("STARVED");
  }
  vr_finish("OK");
}
