/* yield.c — harness for fiber_yield fairness (C10).
 * usage: yield <kernel threads> <script>; per fiber: y = fiber_yield().  Each fiber logs
 * `ran <i>` every time it gets the CPU back.  The main fiber (the kernel thread 0 context)
 * polls with fiber_yield() until all script fibers have finished — itself a yield-based
 * polling loop of the kind the property talks about. */
/* many fibers: size-triggered scheduler paths (deque growth at 256 entries) */
#define VH_MAXF 600
#include "rtcommon.h"

static volatile int finished[VH_MAXF];
static long total_polls;

static void do_op(int t, const char* op) {
  if (op[0] == 'y') {
    vr_note("yield");
    fiber_yield();
    vr_note("resumed");
  } else if (op[0] == 'w') {
    /* yield-based polling loop: wait until script fiber j has executed its `f` op */
    int j = atoi(op + 1);
    while (!finished[j]) {
      vr_note("yield");
      fiber_yield();
      vr_note("resumed");
      vr_relax(); /* with several kernel threads this is a cross-thread spin loop */
      if (++total_polls > 3000) vr_finish("STARVED");
    }
  } else if (op[0] == 'f') {
    finished[t] = 1;
  }
}

VH_NOINSTR int main(int argc, char** argv) {
  if (argc < 3) return 2;
  int k = atoi(argv[1]);
  vh_parse(argv[2]);
  fiber_manager_init(k);
  vr_note("init sched %d", k);
  vh_do_op = do_op;
  for (int t = 0; t < vh_script.nfibers; t++) {
    vh_fibers[t] = fiber_create_no_sched(vh_script.nfibers > 64 ? 16384 : 65536, vh_fiber_main, (void*)(long)t);
    vh_reg_fiber(vh_fibers[t], t);
    fiber_detach(vh_fibers[t]);
  }
  for (int t = 0; t < vh_script.nfibers; t++) {
    vr_note("sched %d", vh_fid(vh_fibers[t]));
    fiber_manager_schedule(fiber_manager_get(), vh_fibers[t]);
  }
  long polls = 0;
  while (vh_done_count < vh_script.nfibers) {
    vr_note("yield");
    fiber_yield();
    vr_note("resumed");
    vr_relax();
    if (++polls > 6000) vr_finish("STARVED");
  }
  vr_finish("OK");
}
