/* common.h — script parsing and thread launch shared by the plain-pthread
 * harnesses.  A script is  "op,op,op|op,op|..."  : one '|'-separated list per
 * thread; thread 0 of the script runs on the main kernel thread. */
#ifndef VH_COMMON_H
#define VH_COMMON_H
#include <pthread.h>
#include <stdio.h>
#include <stdlib.h>
#include <string.h>

#include "vrt.h"

#define VH_MAXT 8
#define VH_MAXOPS 256
typedef struct vh_script {
  int nthreads;
  int nops[VH_MAXT];
  char* ops[VH_MAXT][VH_MAXOPS];
} vh_script_t;

static vh_script_t vh_script;

static void vh_parse(const char* s) {
  char* dup = strdup(s);
  char* save1 = NULL;
  vh_script.nthreads = 0;
  for (char* th = strtok_r(dup, "|", &save1); th; th = strtok_r(NULL, "|", &save1)) {
    int t = vh_script.nthreads++;
    if (t >= VH_MAXT) { fprintf(stderr, "too many threads\n"); exit(2); }
    vh_script.nops[t] = 0;
    char* save2 = NULL;
    for (char* op = strtok_r(th, ",", &save2); op; op = strtok_r(NULL, ",", &save2)) {
      if (*op == '-') continue; /* "-" = empty thread */
      if (vh_script.nops[t] >= VH_MAXOPS) { fprintf(stderr, "too many ops\n"); exit(2); }
      vh_script.ops[t][vh_script.nops[t]++] = op;
    }
  }
}

typedef void (*vh_op_fn)(int thread, const char* op);
static vh_op_fn vh_do_op;

static void* vh_thread_main(void* arg) {
  int t = (int)(long)arg;
  for (int i = 0; i < vh_script.nops[t]; i++) vh_do_op(t, vh_script.ops[t][i]);
  return NULL;
}

static void vh_run(vh_op_fn fn) {
  vh_do_op = fn;
  pthread_t th[VH_MAXT];
  for (int t = 1; t < vh_script.nthreads; t++) pthread_create(&th[t], NULL, vh_thread_main, (void*)(long)t);
  vr_point();
  vh_thread_main((void*)0L);
  for (int t = 1; t < vh_script.nthreads; t++) pthread_join(th[t], NULL);
}

/* Initialisation functions must not depend on zeroed storage or on fresh (zeroed) heap: before
 * an object is initialised the harness fills it with 0xAB and leaves dirty chunks of the usual
 * sizes in the allocator's bins (tcache AND fastbin/unsorted: tcache clears bytes 8..15). */
#ifndef VH_DIRTY_DEFINED
#define VH_DIRTY_DEFINED
__attribute__((no_sanitize_thread)) static void vh_dirty_heap(void) {
  static const size_t sizes[] = {16, 24, 32, 48, 64, 96, 128, 152, 256};
  for (unsigned s = 0; s < sizeof sizes / sizeof *sizes; s++) {
    void* p[12];
    for (int i = 0; i < 12; i++) {
      p[i] = malloc(sizes[s]);
      memset(p[i], 0xAB, sizes[s]);
      __asm__ __volatile__("" : : "r"(p[i]) : "memory");
    }
    for (int i = 0; i < 12; i++) free(p[i]);
    /* drain the per-thread cache (7 entries) so the next allocation of this size comes
     * from a fastbin / the unsorted bin with its payload still dirty */
    for (int i = 0; i < 7; i++) {
      void* volatile keep = malloc(sizes[s]); /* volatile: the call must not be optimised away */
      (void)keep;
    }
  }
}
#define VH_DIRTY(obj)                                      \
  do {                                                     \
    memset((void*)&(obj), 0xAB, sizeof(obj));              \
    __asm__ __volatile__("" : : "r"(&(obj)) : "memory");   \
    vh_dirty_heap();                                       \
  } while (0)
#endif
#endif
