/* wrap_sleep.c — C09's unity wrapper around /repo/src/fiber_event_native.c.
 *
 * `#include`s the REAL source (never a copy).  The library's own copy of
 * fiber_event_native.c is left out of the link (VR_SKIP_LIB, see tools/specs_c09.py).
 * (harness/wrap_event_native.c is C08's wrapper of the same file; C09 needs three call-site
 * redirections that must not leak into C08's build, hence a separate file.)
 *
 * No /repo source is edited.  What this file adds:
 *
 *  (1) accessors for the file-static state: `sleepers`, `timer_trigger_count`,
 *      `sleep_spinlock`, and the REAL waiter_insert / waiter_remove_less_than for the
 *      differential test of the pure tree functions;
 *
 *  (2) three CALL-SITE redirections inside this translation unit only, each a function-like
 *      macro whose expansion calls the ORIGINAL function with the original arguments and
 *      returns its result unchanged (same technique as rt/shim.h):
 *
 *      fiber_manager_get()    in fiber_sleep, is called right after waiter_insert() while the
 *                             caller holds sleep_spinlock: the one node of the tree whose
 *                             `waiter` is still NULL is the caller's on-stack
 *                             `waiter_el_t wake_info`.  Its five fields are registered as
 *                             cells W<fiber>.wake_time/.waiter/.next/.left/.right.
 *      fiber_manager_yield()  in fiber_sleep: when it returns, the fiber has been resumed.
 *                             The cells of its node are forgotten at that instant (ghost
 *                             validity: a node is readable only while its fiber has not been
 *                             resumed) and `note resumed` is logged.
 *      fibershim_read()       on the timer fd: `note timer <count>` = the instant and the
 *                             result of reading the timer's expiration counter (a system
 *                             call, otherwise invisible in the log).
 */
#include <errno.h>
#include <stdio.h>
#include <string.h>
#include <sys/poll.h>
#include <sys/resource.h>
#include <unistd.h>

#include "fiber.h"
#include "fiber_event.h"
#include "fiber_manager.h"
#include "fiber_spinlock.h"
#include "vrt.h"

#define VW_NOINSTR __attribute__((no_sanitize_thread))

fiber_manager_t* vw_manager_get_hook(const char* func);
void vw_yield_hook(fiber_manager_t* manager, const char* func);
ssize_t vw_read_hook(int fd, void* buf, size_t n);

#define fiber_manager_get() vw_manager_get_hook(__func__)
#define fiber_manager_yield(m) vw_yield_hook((m), __func__)
#define fibershim_read(fd, buf, n) vw_read_hook((fd), (buf), (n))

#include "fiber_event_native.c"

#undef fiber_manager_get
#undef fiber_manager_yield
#undef fibershim_read

/* ---------------------------------------------------------------- accessors */
void* vw_sleepers_addr(void) { return &sleepers; }
void* vw_ttc_addr(void) { return &timer_trigger_count; }
void* vw_sleep_lock_addr(void) { return &sleep_spinlock; }

#define VW_MAXFIB 4096
static waiter_el_t* vw_node[VW_MAXFIB]; /* currently registered node of fiber <id> */

VW_NOINSTR static waiter_el_t* vw_find_unowned(waiter_el_t* t) {
  while (t) {
    for (waiter_el_t* c = t; c; c = c->next)
      if (!c->waiter) return c;
    waiter_el_t* l = vw_find_unowned(t->left);
    if (l) return l;
    t = t->right;
  }
  return NULL;
}

VW_NOINSTR static void vw_forget(int fid) {
  if (fid < 0 || fid >= VW_MAXFIB || !vw_node[fid]) return;
  vr_forget(vw_node[fid], sizeof(waiter_el_t));
  vw_node[fid] = NULL;
}

VW_NOINSTR fiber_manager_t* vw_manager_get_hook(const char* func) {
  fiber_manager_t* const m = fiber_manager_get();
  if (strcmp(func, "fiber_sleep")) return m;
  const int fid = vr_fiber();
  if (fid < 0 || fid >= VW_MAXFIB) return m;
  waiter_el_t* const n = vw_find_unowned(sleepers);
  if (!n || vw_node[fid] == n) return m;
  vw_forget(fid);
  vw_node[fid] = n;
  vr_reg(&n->wake_time, 8, "W%d.wake_time", fid);
  vr_reg(&n->waiter, 8, "W%d.waiter", fid);
  vr_reg(&n->next, 8, "W%d.next", fid);
  vr_reg(&n->left, 8, "W%d.left", fid);
  vr_reg(&n->right, 8, "W%d.right", fid);
  /* address (so the log's pointer values can be mapped to fibers) and deadline */
  vr_note("node %lu %lu", (unsigned long)(uintptr_t)n, (unsigned long)n->wake_time);
  return m;
}

VW_NOINSTR void vw_yield_hook(fiber_manager_t* manager, const char* func) {
  const int in_sleep = !strcmp(func, "fiber_sleep");
  const int fid = vr_fiber();
  fiber_manager_yield(manager);
  if (in_sleep) {
    vw_forget(fid);
    vr_note("resumed");
  }
}

VW_NOINSTR ssize_t vw_read_hook(int fd, void* buf, size_t n) {
  const ssize_t r = fibershim_read(fd, buf, n);
  if (fd == timer_fd) {
    uint64_t c = 0;
    if (r == (ssize_t)sizeof(c)) memcpy(&c, buf, sizeof c);
    vr_note("timer %lu", (unsigned long)c);
  }
  return r;
}

/* ---------------------------------------------------------------- definite lost-sleeper check
 * A snapshot taken without a scheduling point.  While sleep_spinlock is free every fiber parked
 * in fiber_sleep (state WAITING) must be in the sleepers tree — the tree is the only way a wake
 * pass can find it — and no node of the tree may be overdue (wake_time < timer_trigger_count):
 * timer_trigger_count only grows under the lock, in a wake pass that removes everything due
 * before it unlocks.  A fiber violating either can never be woken.  Returns how many of the
 * given (not yet finished) fibers are lost; their log ids go to lost_ids. */
VW_NOINSTR static void vw_collect(waiter_el_t* t, waiter_el_t** out, int* n, int max) {
  while (t && *n < max) {
    for (waiter_el_t* c = t; c && *n < max; c = c->next) out[(*n)++] = c;
    vw_collect(t->left, out, n, max);
    t = t->right;
  }
}

VW_NOINSTR int vw_lost_check(fiber_t** fibers, const volatile int* done, int nfibers, int* lost_ids) {
  if (sleep_spinlock.state.counters.ticket != sleep_spinlock.state.counters.users) return 0;
  waiter_el_t* nodes[512];
  int nn = 0;
  vw_collect(sleepers, nodes, &nn, 512);
  int lost = 0;
  for (int i = 0; i < nfibers; i++) {
    if (done[i] || fibers[i]->state != FIBER_STATE_WAITING) continue;
    waiter_el_t* mine = NULL;
    for (int k = 0; k < nn; k++)
      if (nodes[k]->waiter == fibers[i]) mine = nodes[k];
    if (!mine || mine->wake_time < timer_trigger_count) lost_ids[lost++] = *(int*)fibers[i]->context.tsan_fiber;
  }
  return lost;
}

/* number of timer ticks until the earliest sleeper is due (wake_time + 1 - timer_trigger_count),
 * 0 if the lock is busy or nobody sleeps: lets the harness clock jump over long sleeps */
VW_NOINSTR unsigned long long vw_ticks_to_next_deadline(void) {
  if (sleep_spinlock.state.counters.ticket != sleep_spinlock.state.counters.users) return 0;
  waiter_el_t* t = sleepers;
  if (!t) return 0;
  while (t->left) t = t->left;
  return t->wake_time + 1 > timer_trigger_count ? t->wake_time + 1 - timer_trigger_count : 0;
}

/* ---------------------------------------------------------------- differential test of the pure tree functions
 * ops: i<wake_time> insert a fresh node (ids 1,2,3… in insertion order);
 *      r<t>         call waiter_remove_less_than(&tree, t) until it returns NULL; every
 *                   returned node is printed with its whole `next` chain, in chain order.
 * Runs the REAL waiter_insert / waiter_remove_less_than on a private tree. */
VW_NOINSTR void vw_diff(int nops, char** ops) {
  waiter_el_t* tree = NULL;
  waiter_el_t* nodes = calloc(nops + 1, sizeof *nodes);
  int next_id = 1;
  for (int i = 0; i < nops; i++) {
    const char* op = ops[i];
    if (op[0] == 'i') {
      waiter_el_t* n = &nodes[next_id];
      n->wake_time = strtoull(op + 1, NULL, 10);
      n->waiter = (void*)(long)next_id;
      waiter_insert(&tree, n);
      vr_note("ins %d %lu", next_id, (unsigned long)n->wake_time);
      next_id++;
    } else if (op[0] == 'r') {
      const uint64_t t = strtoull(op + 1, NULL, 10);
      waiter_el_t* w;
      while ((w = waiter_remove_less_than(&tree, t))) {
        char buf[900];
        size_t l = 0;
        for (waiter_el_t* c = w; c && l + 24 < sizeof buf; c = c->next) l += snprintf(buf + l, sizeof buf - l, " %ld", (long)c->waiter);
        vr_note("rem %lu%s", (unsigned long)t, buf);
      }
      vr_note("remend %lu", (unsigned long)t);
    }
  }
}
