/* wsdscale.c — scale harness for src/work_stealing_deque.c (C02: "any number of entries, while a
 * queue grows").  The access-level harness (wsd.c) follows every access and keeps the deque tiny;
 * this one runs the REAL deque through many growth steps up to millions of entries:
 *   usage: wsdscale <entries N> <thieves T> <seed>
 * The owner pushes N distinct entries (the array grows from 2^8 slots through every power of two
 * up to beyond N), T thieves steal concurrently from the start, then the owner pops the rest.
 * Oracle: every entry is handed out exactly once (a bitmap), nothing else is handed out.
 * Statuses: OK, ORACLE (note `ORACLE lost <n> duplicated <n> bogus <n>`). */
#include <pthread.h>
#include <stdint.h>

#include "common.h"
/* the real implementation, compiled with the same instrumentation (include path has <repo>/src) */
#include "work_stealing_deque.c"

static wsd_work_stealing_deque_t* dq;
static long N;
static unsigned char* seen;
static _Atomic long dup_, bogus, stolen;
static _Atomic int owner_done;

__attribute__((no_sanitize_thread)) static void account(void* p) {
  long v = (long)p;
  if (v < 1 || v > N) { bogus++; return; }
  if (__atomic_fetch_add(&seen[v], 1, __ATOMIC_RELAXED)) dup_++;
}

static void* thief(void* arg) {
  (void)arg;
  while (!owner_done) {
    void* p = wsd_work_stealing_deque_steal(dq);
    if (p != WSD_EMPTY && p != WSD_ABORT) { account(p); stolen++; }
    vr_relax(); /* scheduling point: the deque's own cells are not registered here */
  }
  return NULL;
}

int main(int argc, char** argv) {
  if (argc < 4) return 2;
  N = atol(argv[1]);
  const int T = atoi(argv[2]);
  vr_note("init wsdscale %ld %d", N, T);
  seen = calloc(N + 1, 1);
  dq = wsd_work_stealing_deque_create();
  pthread_t th[8];
  for (int i = 0; i < T && i < 8; i++) pthread_create(&th[i], NULL, thief, NULL);
  for (long v = 1; v <= N; v++) {
    wsd_work_stealing_deque_push_bottom(dq, (void*)v);
    if (v % 509 == 0) vr_point(); /* let the thieves in now and then, also across growth steps */
  }
  for (;;) {
    void* p = wsd_work_stealing_deque_pop_bottom(dq);
    if (p == WSD_EMPTY) break;
    if (p != WSD_ABORT) account(p);
  }
  owner_done = 1;
  for (int i = 0; i < T && i < 8; i++) pthread_join(th[i], NULL);
  long lost = 0;
  for (long v = 1; v <= N; v++) lost += !seen[v];
  vr_note("done entries %ld stolen %ld lost %ld duplicated %ld bogus %ld", N, (long)stolen, lost, (long)dup_, (long)bogus);
  if (lost || dup_ || bogus) { vr_note("ORACLE lost %ld duplicated %ld bogus %ld", lost, (long)dup_, (long)bogus); vr_finish("ORACLE"); }
  vr_finish("OK");
}
