/* spin.c — correspondence harness for src/fiber_spinlock.c (C18).
 * usage: spin <initial ticket=users value, decimal, taken mod 2^32> <script>
 * ops: l = lock, t = trylock, u = unlock (performed only if this thread holds the lock).
 * Contenders are plain kernel threads.  The REAL fiber_spinlock.c is compiled into this
 * translation unit; the only thing it needs from the runtime is fiber_manager_get()
 * (the spin loop bumps manager->spin_count), provided here as a per-thread dummy. */
#include "common.h"
#include "fiber_spinlock.c"

static __thread fiber_manager_t* my_manager;

fiber_manager_t* fiber_manager_get() {
  if (!my_manager) my_manager = calloc(1, sizeof(*my_manager));
  return my_manager;
}

static fiber_spinlock_t lock_obj;
static int held[VH_MAXT];
/* deliberately NOT atomic and not a registered cell: read, scheduling point, write.
 * Two threads inside the critical section at once lose an increment. */
static volatile long cs_counter;
static long acquisitions[VH_MAXT];

static void critical_section(int t) {
  vr_note("cs enter");
  long c = cs_counter;
  vr_point();
  cs_counter = c + 1;
  acquisitions[t] += 1;
  vr_note("cs exit");
}

static void do_op(int t, const char* op) {
  if (op[0] == 'l') {
    if (held[t]) return; /* would self-deadlock: client error, never generated */
    vr_note("call lock");
    fiber_spinlock_lock(&lock_obj);
    vr_note("ret lock");
    held[t] = 1;
    critical_section(t);
  } else if (op[0] == 't') {
    if (held[t]) return;
    vr_note("call trylock");
    int r = fiber_spinlock_trylock(&lock_obj);
    vr_note("ret trylock %d", r == FIBER_SUCCESS ? 1 : 0);
    if (r == FIBER_SUCCESS) {
      held[t] = 1;
      critical_section(t);
    }
  } else if (op[0] == 'u') {
    if (!held[t]) return; /* unlock by a non-holder is a client-contract violation */
    held[t] = 0;
    vr_note("call unlock");
    fiber_spinlock_unlock(&lock_obj);
    vr_note("ret unlock");
  }
}

int main(int argc, char** argv) {
  if (argc < 3) return 2;
  uint32_t v0 = (uint32_t)strtoull(argv[1], NULL, 10);
  vh_parse(argv[2]);
  VH_DIRTY(lock_obj);
  fiber_spinlock_init(&lock_obj);
  fiber_spinlock_internal_t init;
  init.counters.ticket = v0;
  init.counters.users = v0;
  lock_obj.state.blob = init.blob;
  vr_reg(&lock_obj.state, 8, "lock");
  /* part spin-tso: the critical-section counter is the data cell the lock protects (plain
   * load and store inside the critical section become `csRead` / `csWrite` of Model/SpinTso) */
  if (getenv("VH_DATA")) vr_reg((void*)&cs_counter, 8, "data");
  vr_note("init spin %u", v0);
  vh_run(do_op);
  long total = 0;
  for (int t = 0; t < VH_MAXT; t++) {
    total += acquisitions[t];
    if (held[t]) vr_finish("LEFTLOCKED"); /* malformed script */
  }
  if (cs_counter != total) vr_finish("LOSTUPDATE");
  /* the lock must be free again: a final trylock/unlock pair by the main thread */
  vr_note("call trylock");
  int r = fiber_spinlock_trylock(&lock_obj);
  vr_note("ret trylock %d", r == FIBER_SUCCESS ? 1 : 0);
  if (r != FIBER_SUCCESS) vr_finish("NOTFREE");
  vr_note("call unlock");
  fiber_spinlock_unlock(&lock_obj);
  vr_note("ret unlock");
  vr_finish("OK");
}
