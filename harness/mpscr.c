/* mpscr.c — correspondence harness for include/mpsc_relaxed_fifo.h (C15, part mpscr).
 * usage: mpscr <num_producers> <spare nodes> <script> [<first producer number> <stride>]
 * script thread 0 is THE consumer (ops: o = trypop); script thread t >= 1 is a producer
 * and uses producer number first + (t-1)*stride only (default 0, 1; with many producer
 * numbers and few threads the threads can be given numbers 256 or 65536 apart) (ops: p<v> =
 * push a node carrying the distinct positive value v).  The popped stub of one sub-queue may be pushed to another one.
 * Nodes circulate: trypop hands back the old stub node (carrying the popped value); the
 * consumer puts it on a LIFO free list from which producers take their next node, so
 * node identities are reused as early as the API contract allows.  The free list itself
 * is harness-private (not a registered cell, hence no scheduling point inside it). */
#include "common.h"
#include "mpsc_relaxed_fifo.h"

/* VR_BIAS=.data:<k> (same k here): abstract item v travels as payload word v - k, so item k is a
 * NULL payload in the real code; the runtime prints the data cells plus k again */
static long payload_bias;

static mpscr_fifo_t* fifo;
#define MAXN 4096
static spsc_node_t* freelist[MAXN];
static int nfree;
static int nnodes;
static long prod_first, prod_stride = 1;
#define PRODNO(t) ((size_t)(prod_first + ((t) - 1) * prod_stride))

static void name_node(spsc_node_t* n) {
  int id = ++nnodes;
  vr_obj(n, sizeof *n, "n%d", id);
  vr_reg(&n->data, 8, "n%d.data", id);
  vr_reg(&n->next, 8, "n%d.next", id);
}

static spsc_node_t* get_node(void) {
  if (nfree > 0) return freelist[--nfree];
  spsc_node_t* n = (spsc_node_t*)calloc(1, sizeof *n);
  name_node(n);
  return n;
}

static void put_node(spsc_node_t* n) {
  if (nfree < MAXN) freelist[nfree++] = n;
}

static void do_pop(void) {
  vr_note("call pop");
  spsc_node_t* r = mpscr_fifo_trypop(fifo);
  long v = 0;
  if (r) {
    v = (long)r->data + payload_bias;
    put_node(r);
  }
  vr_note("ret pop %ld", v);
}

static void do_op(int t, const char* op) {
  if (op[0] == 'p' && t != 0) {
    long v = atol(op + 1);
    vr_note("producer %zu", PRODNO(t));
    vr_note("call push %ld", v);
    spsc_node_t* n = get_node();
    n->data = (void*)(v - payload_bias);
    mpscr_fifo_push(fifo, PRODNO(t), n);
    vr_note("ret push 1");
  } else if (op[0] == 'o' && t == 0) {
    do_pop();
  } else {
    fprintf(stderr, "bad op %s for thread %d\n", op, t);
    exit(2);
  }
}

int main(int argc, char** argv) {
  if (argc < 4) return 2;
  int np = atoi(argv[1]);
  int spare = atoi(argv[2]);
  vh_parse(argv[3]);
  { const char* b = getenv("VR_BIAS"); const char* c = b ? strrchr(b, ':') : 0; payload_bias = c ? atol(c + 1) : 0; }
  if (argc > 5) { prod_first = atol(argv[4]); prod_stride = atol(argv[5]); }
  if (vh_script.nthreads > 1 && PRODNO(vh_script.nthreads - 1) >= (size_t)np) { fprintf(stderr, "mpscr: more producer threads than producer numbers\n"); return 2; }
  vh_dirty_heap();
  fifo = mpscr_fifo_create((size_t)np);
  if (!fifo) return 2;
  vr_reg(&fifo->counter, 8, "counter");
  for (int i = 0; i < np; i++) {
    name_node(fifo->fifos[i].head); /* the initial stub of sub-queue i is n<i+1> */
    vr_reg(&fifo->fifos[i].head, 8, "q%d.head", i);
    vr_reg(&fifo->fifos[i].tail, 8, "q%d.tail", i);
  }
  for (int i = 0; i < spare; i++) {
    spsc_node_t* n = (spsc_node_t*)calloc(1, sizeof *n);
    name_node(n);
    put_node(n);
  }
  vr_note("init mpscr %d", np);
  vh_run(do_op);
  /* drain single-threaded so the monitor can tell a lost item from a queued one */
  for (;;) {
    vr_note("call pop");
    spsc_node_t* r = mpscr_fifo_trypop(fifo);
    long v = r ? (long)r->data + payload_bias : 0;
    vr_note("ret pop %ld", v);
    if (!r) break;
  }
  vr_finish("OK");
}
