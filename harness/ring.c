/* ring.c — correspondence harness for include/lockfree_ring_buffer.h (C16).
 * usage: ring <log2 size> <script> [base]; ops: p<v> = trypush(v), o = trypop,
 * P<v> = blocking push(v), O = blocking pop, z = size query.
 * base (decimal, default 0): a ring that has been in use for a long time - `high` and `low`
 * both start at `base` (mod 2^64) instead of 0, exactly the state `base` push/pop pairs would
 * have produced on an empty ring (all slots NULL).  Bases just below 2^64, 2^63, 2^32 make the
 * counters cross those points during the run.
 * The blocking wrappers are logged as `call bpush v` / `ret bpush 1`, `call bpop` / `ret bpop v`
 * (the model must know which function is running); Ring.drive shows them to the API-level
 * monitor as ordinary `push` / `pop` operations that cannot fail.  Scripts must be deadlock-free
 * (tools/specs_c16.py keeps them so by construction). */
#include "common.h"
/* make the wrappers' `cpu_relax()` visible in the log (a `relax` note attributed to the wrapper
 * function) so that the model can check WHEN the wrapper decides the buffer is full / empty;
 * rt/shim.h's scheduling hook (vr_relax = spin point) and the original primitive still run */
#undef cpu_relax
#define cpu_relax() (vr_note("relax"), vr_relax(), cpu_relax())
#include "lockfree_ring_buffer.h"

static lockfree_ring_buffer_t* rb;

/* not part of the library and not an access of the run: kept out of the log */
__attribute__((no_sanitize_thread, noinline)) static void apply_base(uint64_t base) {
  *(volatile uint64_t*)&rb->high = base;
  *(volatile uint64_t*)&rb->low = base;
}

static void do_op(int t, const char* op) {
  (void)t;
  if (op[0] == 'p') {
    long v = atol(op + 1);
    vr_note("call push %ld", v);
    int r = lockfree_ring_buffer_trypush(rb, (void*)v);
    vr_note("ret push %d", r);
  } else if (op[0] == 'P') {
    long v = atol(op + 1);
    vr_note("call bpush %ld", v);
    lockfree_ring_buffer_push(rb, (void*)v);
    vr_note("ret bpush 1");
  } else if (op[0] == 'O') {
    vr_note("call bpop");
    void* r = lockfree_ring_buffer_pop(rb);
    vr_note("ret bpop %ld", (long)r);
  } else if (op[0] == 'z') {
    vr_note("call size");
    size_t n = lockfree_ring_buffer_size(rb);
    vr_note("ret size %lu", (unsigned long)n);
  } else {
    vr_note("call pop");
    void* r = lockfree_ring_buffer_trypop(rb);
    vr_note("ret pop %ld", (long)r);
  }
}

int main(int argc, char** argv) {
  if (argc < 3) return 2;
  int k = atoi(argv[1]);
  vh_parse(argv[2]);
  /* the ring must not depend on fresh (zeroed) heap: hand the allocator a dirty block of
   * exactly the ring's size first */
  {
    size_t sz = sizeof(lockfree_ring_buffer_t) + ((size_t)1 << k) * sizeof(void*);
    void* dirty = malloc(sz);
    memset(dirty, 0xAB, sz);
    __asm__ __volatile__("" : : "r"(dirty) : "memory"); /* keep the stores */
    free(dirty);
  }
  uint64_t base = argc > 3 ? strtoull(argv[3], 0, 10) : 0;
  rb = lockfree_ring_buffer_create(k);
  if (base) apply_base(base);
  vr_reg(&rb->high, 8, "high");
  vr_reg(&rb->low, 8, "low");
  for (uint32_t i = 0; i < rb->size; i++) vr_reg(&rb->buffer[i], 8, "buf%u", i);
  /* the model is told the REQUESTED capacity 2^k, not what the implementation made of it */
  /* argv[4]: how the source compares the counters in trypop/pop, as read from the header by
   * extract/ring_extract.py (the harness cannot know; it only passes the word on) */
  vr_note("init ring %u %llu %s", 1u << k, (unsigned long long)base, argc > 4 ? argv[4] : "asis");
  vh_run(do_op);
  /* drain single-threaded so the monitor can tell a lost item from a queued one */
  for (;;) {
    vr_note("call pop");
    void* r = lockfree_ring_buffer_trypop(rb);
    vr_note("ret pop %ld", (long)r);
    if (!r) break;
  }
  vr_finish("OK");
}
