/* ring.c — correspondence harness for include/lockfree_ring_buffer.h (C16).
 * usage: ring <log2 size> <script>; ops: p<v> = trypush(v), o = trypop. */
#include "common.h"
#include "lockfree_ring_buffer.h"

static lockfree_ring_buffer_t* rb;

static void do_op(int t, const char* op) {
  (void)t;
  if (op[0] == 'p') {
    long v = atol(op + 1);
    vr_note("call push %ld", v);
    int r = lockfree_ring_buffer_trypush(rb, (void*)v);
    vr_note("ret push %d", r);
  } else {
    vr_note("call pop");
    void* r = lockfree_ring_buffer_trypop(rb);
    vr_note("ret pop %ld", (long)r);
  }
}

int main(int argc, char** argv) {
  if (argc < 3) return 2;
  int k = atoi(argv[1]);
  vh_parse(argv[2]);
  /* the ring must not depend on fresh (zeroed) heap: hand the allocator a dirty block of
   * exactly the ring's size first */
  {
    size_t sz = sizeof(lockfree_ring_buffer_t) + ((size_t)1 << k) * sizeof(void*);
    void* dirty = malloc(sz);
    memset(dirty, 0xAB, sz);
    __asm__ __volatile__("" : : "r"(dirty) : "memory"); /* keep the stores */
    free(dirty);
  }
  rb = lockfree_ring_buffer_create(k);
  vr_reg(&rb->high, 8, "high");
  vr_reg(&rb->low, 8, "low");
  for (uint32_t i = 0; i < rb->size; i++) vr_reg(&rb->buffer[i], 8, "buf%u", i);
  /* the model is told the REQUESTED capacity 2^k, not what the implementation made of it */
  vr_note("init ring %u", 1u << k);
  vh_run(do_op);
  /* drain single-threaded so the monitor can tell a lost item from a queued one */
  for (;;) {
    vr_note("call pop");
    void* r = lockfree_ring_buffer_trypop(rb);
    vr_note("ret pop %ld", (long)r);
    if (!r) break;
  }
  vr_finish("OK");
}
