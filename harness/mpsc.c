/* mpsc.c — correspondence harness for include/mpsc_fifo.h (C15, part mpsc).
 * usage: mpsc <spare nodes> <script>
 * script thread 0 is THE consumer (ops: o = trypop, k = peek: look at the next payload without
 * removing it; notes `call peek` / `ret peek <v or 0>`); every other thread is a producer
 * (ops: p<v> = push a node carrying the distinct positive value v).
 * Nodes circulate: trypop hands back the old stub node (carrying the popped value); the
 * consumer puts it on a LIFO free list from which producers take their next node, so
 * node identities are reused as early as the API contract allows.  The free list itself
 * is harness-private (not a registered cell, hence no scheduling point inside it). */
#include "common.h"
#include "mpsc_fifo.h"

/* VR_BIAS=.data:<k> (same k here): abstract item v travels as payload word v - k, so item k is a
 * NULL payload in the real code; the runtime prints the data cells plus k again */
static long payload_bias;

static mpsc_fifo_t fifo;
#define MAXN 4096
static mpsc_fifo_node_t* freelist[MAXN];
static int nfree;
static int nnodes;

static void name_node(mpsc_fifo_node_t* n) {
  int id = ++nnodes;
  vr_obj(n, sizeof *n, "n%d", id);
  vr_reg(&n->data, 8, "n%d.data", id);
  vr_reg(&n->next, 8, "n%d.next", id);
}

static mpsc_fifo_node_t* get_node(void) {
  if (nfree > 0) return freelist[--nfree];
  mpsc_fifo_node_t* n = (mpsc_fifo_node_t*)calloc(1, sizeof *n);
  name_node(n);
  return n;
}

static void put_node(mpsc_fifo_node_t* n) {
  if (nfree < MAXN) freelist[nfree++] = n;
}

static void do_pop(void) {
  vr_note("call pop");
  mpsc_fifo_node_t* r = mpsc_fifo_trypop(&fifo);
  long v = 0;
  if (r) {
    v = (long)r->data + payload_bias;
    put_node(r);
  }
  vr_note("ret pop %ld", v);
}

static void do_peek(void) {
  vr_note("call peek");
  void* d = NULL;
  int r = mpsc_fifo_peek(&fifo, &d);
  vr_note("ret peek %ld", r ? (long)d + payload_bias : 0L);
}

static void do_op(int t, const char* op) {
  if (op[0] == 'p' && t != 0) {
    long v = atol(op + 1);
    vr_note("call push %ld", v);
    mpsc_fifo_node_t* n = get_node();
    n->data = (void*)(v - payload_bias);
    mpsc_fifo_push(&fifo, n);
    vr_note("ret push 1");
  } else if (op[0] == 'o' && t == 0) {
    do_pop();
  } else if (op[0] == 'k' && t == 0) {
    do_peek();
  } else {
    fprintf(stderr, "bad op %s for thread %d\n", op, t);
    exit(2);
  }
}

int main(int argc, char** argv) {
  if (argc < 3) return 2;
  int spare = atoi(argv[1]);
  vh_parse(argv[2]);
  { const char* b = getenv("VR_BIAS"); const char* c = b ? strrchr(b, ':') : 0; payload_bias = c ? atol(c + 1) : 0; }
  VH_DIRTY(fifo);
  if (!mpsc_fifo_init(&fifo)) return 2;
  name_node(fifo.head); /* the initial stub is n1 */
  vr_reg(&fifo.head, 8, "head");
  vr_reg(&fifo.tail, 8, "tail");
  for (int i = 0; i < spare; i++) {
    mpsc_fifo_node_t* n = (mpsc_fifo_node_t*)calloc(1, sizeof *n);
    name_node(n);
    put_node(n);
  }
  vr_note("init mpsc");
  vh_run(do_op);
  /* drain single-threaded so the monitor can tell a lost item from a queued one */
  for (;;) {
    vr_note("call pop");
    mpsc_fifo_node_t* r = mpsc_fifo_trypop(&fifo);
    long v = r ? (long)r->data + payload_bias : 0;
    vr_note("ret pop %ld", v);
    if (!r) break;
  }
  vr_finish("OK");
}
