/* signal.c — correspondence harness for fiber_signal_t (include/fiber_signal.h), C11.
 * usage: signal <kernel threads> <script>
 *
 * Client contract (fiber_signal.h): exactly ONE fiber ever waits on a signal; any number of
 * fibers/threads may raise it.  Script fiber 0 is that waiter, the others are raisers.
 *
 * ops of the waiter:   t  take one token:  while (tokens == 0) fiber_signal_wait(&sig); tokens--
 *                      y  yield
 * ops of the raisers:  p  publish one token, THEN raise (the channel usage pattern)
 *                      R  raise without publishing (spurious raise: must be harmless)
 *                      y  yield
 * Raises coalesce, so "k waits, k raises" is not deadlock-free; "k takes, k publishes" is,
 * exactly when no raise is lost: a taker asleep for ever while a token is there = HANG. */
#include "rtcommon.h"
#include "fiber_signal.h"

static fiber_signal_t sig;
static volatile long tokens; /* registered cell: the "publication" the signal announces */


/* fiber_t.scratch is shared by several mechanisms ("be sure mechanisms do not conflict"): an
 * fd wait ended by close() really leaves (void*)-1 == FIBER_SIGNAL_READY_TO_WAKE there.  So
 * before every wait the harness dirties the waiting fiber's own scratch with that value, by a
 * store the instrumentation does not see (no event, no scheduling point): a wait that relied
 * on scratch being NULL on entry would be woken before its context is saved. */
VH_NOINSTR static void dirty_own_scratch(void) {
  fiber_manager_get()->current_fiber->scratch = (void*)(intptr_t)-1;
}

static void do_op(int t, const char* op) {
  switch (op[0]) {
    case 't':
      vr_note("call take");
      while (1) {
        long v = __atomic_load_n(&tokens, __ATOMIC_ACQUIRE);
        if (v > 0) {
          __atomic_fetch_sub(&tokens, 1, __ATOMIC_ACQ_REL);
          break;
        }
        vr_note("call wait");
        dirty_own_scratch();
        fiber_signal_wait(&sig);
        vr_note("ret wait");
      }
      vr_note("ret take");
      break;
    case 'p': {
      vr_note("call publish");
      __atomic_fetch_add(&tokens, 1, __ATOMIC_ACQ_REL);
      vr_note("call raise");
      int r = fiber_signal_raise(&sig);
      vr_note("ret raise %d", r);
      break;
    }
    case 'R': {
      vr_note("call raise");
      int r = fiber_signal_raise(&sig);
      vr_note("ret raise %d", r);
      break;
    }
    case 'y':
      fiber_yield();
      break;
  }
  (void)t;
}

VH_NOINSTR int main(int argc, char** argv) {
  if (argc < 3) return 2;
  int k = atoi(argv[1]);
  vh_parse(argv[2]);
  fiber_manager_init(k);
  VH_DIRTY(sig);
  fiber_signal_init(&sig);
  vr_reg(&sig.waiter, 8, "waiter");
  vr_reg((void*)&tokens, 8, "tokens");
  vr_note("init signal %d", k);
  vh_rt_run(k, do_op, 0);
  vr_finish("OK");
}
