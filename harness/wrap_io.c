/* wrap_io.c — unity wrapper around /repo/src/fiber_io.c (property C08).
 *
 * `#include`s the REAL source (never a copy).  Gives the harness
 *   - the address/extent of the file-static `fd_info[]` and `max_fd` (cell registration and
 *     the bounds oracle's guard zones), and
 *   - a way to put logging trampolines into the file-static `fibershim_*` function
 *     pointers (every shim keeps a non-NULL pointer: `if (!fibershim_x) fibershim_x = dlsym(..)`),
 *     so that each UNDERLYING libc call the shims make, with its result, appears in the log
 *     without LD_PRELOAD and without touching the source.
 */
#include "fiber_io.c"

#include "wrap_io.h"

void* vw_fd_info_base(void) { return fd_info; }
unsigned long vw_fd_info_stride(void) { return sizeof(fiber_fd_info_t); }
unsigned long vw_io_max_fd(void) { return (unsigned long)max_fd; }
int vw_io_thread_locked(void) { return thread_locked; }
int vw_io_flag_blocking(void) { return IO_FLAG_BLOCKING; }
int vw_io_flag_waitable(void) { return IO_FLAG_WAITABLE; }

#define VW_SWAP(f)                                     \
  do {                                                 \
    if (!fibershim_##f) fibershim_##f = dlsym(RTLD_NEXT, #f); \
    old->f = (void*)fibershim_##f;                     \
    if (h->f) fibershim_##f = (void*)h->f;             \
  } while (0)

/* install `h` (NULL members are left alone); the previous pointers are returned in `old` */
void vw_io_hook(const vw_io_hooks_t* h, vw_io_hooks_t* old) {
  VW_SWAP(read);
  VW_SWAP(readv);
  VW_SWAP(write);
  VW_SWAP(writev);
  VW_SWAP(socket);
  VW_SWAP(socketpair);
  VW_SWAP(accept);
  VW_SWAP(send);
  VW_SWAP(sendto);
  VW_SWAP(sendmsg);
  VW_SWAP(recvfrom);
  VW_SWAP(recv);
  VW_SWAP(recvmsg);
  VW_SWAP(connect);
  VW_SWAP(pipe);
  VW_SWAP(fcntl);
  VW_SWAP(ioctl);
  VW_SWAP(close);
}
