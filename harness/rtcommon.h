/* rtcommon.h — shared by the whole-runtime (fiber) harnesses.
 *
 * The real runtime is started with N kernel threads; the script's "threads" are
 * FIBERS (created with fiber_create), scheduled by the real work-stealing
 * scheduler on the real kernel threads, which in turn are serialised by the
 * baton of rt/vrt.c.  Fiber ids in the log come from upstream's own
 * __tsan_create_fiber/__tsan_switch_to_fiber calls (compiled in because
 * -fsanitize=thread defines __SANITIZE_THREAD__): ids 0..N-1 are the kernel
 * threads' own contexts, then fibers in creation order.
 */
#ifndef VH_RTCOMMON_H
#define VH_RTCOMMON_H
#include <stdio.h>
#include <stdlib.h>
#include <string.h>

#include "fiber.h"
#include "fiber_manager.h"
#include "vrt.h"

#define VH_NOINSTR __attribute__((no_sanitize_thread))
#ifndef VH_MAXF
#define VH_MAXF 16
#endif
#define VH_MAXOPS 256
typedef struct vh_script {
  int nfibers;
  int nops[VH_MAXF];
  char* ops[VH_MAXF][VH_MAXOPS];
} vh_script_t;
static vh_script_t vh_script;
static fiber_t* vh_fibers[VH_MAXF];
static volatile int vh_done_count;

VH_NOINSTR static void vh_parse(const char* s) {
  char* dup = strdup(s);
  char* save1 = NULL;
  vh_script.nfibers = 0;
  for (char* th = strtok_r(dup, "|", &save1); th; th = strtok_r(NULL, "|", &save1)) {
    int t = vh_script.nfibers++;
    if (t >= VH_MAXF) { fprintf(stderr, "too many fibers\n"); exit(2); }
    vh_script.nops[t] = 0;
    char* save2 = NULL;
    for (char* op = strtok_r(th, ",", &save2); op; op = strtok_r(NULL, ",", &save2)) {
      if (*op == '-') continue;
      if (vh_script.nops[t] >= VH_MAXOPS) { fprintf(stderr, "too many ops\n"); exit(2); }
      vh_script.ops[t][vh_script.nops[t]++] = op;
    }
  }
}

typedef void (*vh_op_fn)(int fiber_index, const char* op);
static vh_op_fn vh_do_op;

static void* vh_fiber_main(void* arg) {
  int t = (int)(long)arg;
  vr_note("fiber start %d", t);
  for (int i = 0; i < vh_script.nops[t]; i++) vh_do_op(t, vh_script.ops[t][i]);
  vr_note("fiber end %d", t);
  __sync_fetch_and_add(&vh_done_count, 1);
  return (void*)(long)(1000 + t);
}

/* register the fields of a fiber_t the models talk about */
VH_NOINSTR static int vh_fid(fiber_t* f) { return *(int*)f->context.tsan_fiber; }
VH_NOINSTR static void vh_reg_fiber(fiber_t* f, int idx_unused) {
  (void)idx_unused;
  int idx = vh_fid(f); /* name fibers by their log id */
  vr_obj(f, sizeof *f, "F%d", idx);
  vr_reg(&f->state, sizeof f->state, "F%d.state", idx);
  vr_reg((void*)&f->mpsc_fifo_node, 8, "F%d.node", idx);
  vr_reg((void*)&f->scratch, 8, "F%d.scratch", idx);
#ifdef VH_REG_RESULT
  /* join protocol cells: only harnesses whose model knows them ask for this */
  vr_reg((void*)&f->result, 8, "F%d.result", idx);
  vr_reg((void*)&f->join_info, 8, "F%d.join_info", idx);
  vr_reg((void*)&f->detach_state, sizeof f->detach_state, "F%d.detach", idx);
#endif
  if (f->mpsc_fifo_node) {
    vr_obj(f->mpsc_fifo_node, sizeof *f->mpsc_fifo_node, "N%d", idx);
    vr_reg((void*)&f->mpsc_fifo_node->next, 8, "N%d.next", idx);
    vr_reg(&f->mpsc_fifo_node->data, 8, "N%d.data", idx);
  }
}

/* harness/wrap_fiber_scheduler_wsd.c (linked into every runtime build): names the run queues */
extern void vh_name_run_queues(void);

/* things the runtime model (Rt) needs from every runtime harness: run queues named, the main
 * fiber (kernel thread 0's own context, fiber id 0) named and its state word registered */
VH_NOINSTR static void vh_rt_prepare(void) {
  static int done;
  if (done) return;
  done = 1;
  vh_name_run_queues();
  fiber_t* mainf = fiber_manager_get()->thread_fiber;
  vr_obj(mainf, sizeof *mainf, "F0");
  vr_reg(&mainf->state, sizeof mainf->state, "F0.state");
}

/* start the runtime, create one fiber per script entry, wait for all of them */
VH_NOINSTR static void vh_rt_run(int kthreads, vh_op_fn fn, size_t stack) {
  vh_do_op = fn;
  vh_rt_prepare();
  for (int t = 0; t < vh_script.nfibers; t++) {
    vh_fibers[t] = fiber_create_no_sched(stack ? stack : 65536, vh_fiber_main, (void*)(long)t);
    vh_reg_fiber(vh_fibers[t], t);
    fiber_detach(vh_fibers[t]);
  }
  vr_note("spawn %d", vh_script.nfibers);
  for (int t = 0; t < vh_script.nfibers; t++) fiber_manager_schedule(fiber_manager_get(), vh_fibers[t]);
  while (vh_done_count < vh_script.nfibers) {
    fiber_yield();
    vr_relax();
  }
  vr_set_done();
  (void)kthreads;
}

/* variant: the main fiber waits with fiber_join (it parks, so kernel thread 0 runs its
 * maintenance loop, which polls events and steals) instead of yield-polling */
VH_NOINSTR static void vh_rt_run_join(int kthreads, vh_op_fn fn, size_t stack) {
  vh_do_op = fn;
  vh_rt_prepare();
  for (int t = 0; t < vh_script.nfibers; t++) {
    vh_fibers[t] = fiber_create_no_sched(stack ? stack : 65536, vh_fiber_main, (void*)(long)t);
    vh_reg_fiber(vh_fibers[t], t);
  }
  vr_note("spawn %d", vh_script.nfibers);
  for (int t = 0; t < vh_script.nfibers; t++) fiber_manager_schedule(fiber_manager_get(), vh_fibers[t]);
  for (int t = 0; t < vh_script.nfibers; t++) {
    void* res = NULL;
    fiber_join(vh_fibers[t], &res);
    if (res != (void*)(long)(1000 + t)) vr_note("ORACLE join-result fiber %d returned %p", t, res);
  }
  vr_set_done();
  (void)kthreads;
}

/* Initialisation functions must not depend on zeroed storage or on fresh (zeroed) heap: before
 * an object is initialised the harness fills it with 0xAB and leaves dirty chunks of the usual
 * sizes in the allocator's bins (tcache AND fastbin/unsorted: tcache clears bytes 8..15). */
#ifndef VH_DIRTY_DEFINED
#define VH_DIRTY_DEFINED
__attribute__((no_sanitize_thread)) static void vh_dirty_heap(void) {
  static const size_t sizes[] = {16, 24, 32, 48, 64, 96, 128, 152, 256};
  for (unsigned s = 0; s < sizeof sizes / sizeof *sizes; s++) {
    void* p[12];
    for (int i = 0; i < 12; i++) {
      p[i] = malloc(sizes[s]);
      memset(p[i], 0xAB, sizes[s]);
      __asm__ __volatile__("" : : "r"(p[i]) : "memory");
    }
    for (int i = 0; i < 12; i++) free(p[i]);
    /* drain the per-thread cache (7 entries) so the next allocation of this size comes
     * from a fastbin / the unsorted bin with its payload still dirty */
    for (int i = 0; i < 7; i++) {
      void* volatile keep = malloc(sizes[s]); /* volatile: the call must not be optimised away */
      (void)keep;
    }
  }
}
#define VH_DIRTY(obj)                                      \
  do {                                                     \
    memset((void*)&(obj), 0xAB, sizeof(obj));              \
    __asm__ __volatile__("" : : "r"(&(obj)) : "memory");   \
    vh_dirty_heap();                                       \
  } while (0)
#endif
#endif
