/* sem.c — correspondence harness for src/fiber_semaphore.c (C06) on the REAL runtime
 * (fiber_manager_wait_in_mpmc_queue / fiber_manager_wake_from_mpmc_queue / the deferred
 * `mpmc_to_push` of fiber_manager_do_maintenance, include/mpmc_fifo.h with the real hazard
 * pointers and the real free-node ring buffer).
 *
 * usage: sem <kernel threads> <initial value> <script>
 * ops per fiber: w wait, t trywait, p post, y yield
 *
 * Registered cells: `counter`, and `head` / `tail` of semaphore.waiters (the successful
 * tail CAS is the enqueue linearisation point, the successful head CAS the dequeue
 * linearisation point).  The queue nodes come from fiber_manager_get_mpmc_node() (malloc or
 * recycled): they are NOT named, their addresses appear as opaque numbers in the head/tail
 * traffic and the model treats them opaquely.  Which fiber a push is for is known from the
 * per-kernel-thread deferred slot (the waiter's `F<w>.state := WAITING` write in
 * fiber_manager_wait_in_mpmc_queue happens on the kernel thread whose next
 * fiber_manager_do_maintenance performs the push); which fiber a pop delivered is visible
 * from the `F<g>.state := READY` write in fiber_manager_wake_from_mpmc_queue.
 *
 * Deadlock freedom by construction: the main fiber is a sweeper.  Whenever every unfinished
 * script fiber is inside fiber_semaphore_wait and fewer units have been made available
 * (initial + posts begun - admissions) than there are such fibers, it posts once.  So a
 * correct semaphore always lets every script finish, and a lost post shows up as a run that
 * never finishes (status HANG / BUDGET) although enough units were posted. */
/* many simultaneous waiters (more than 127 / 255: widths of locals and fields) */
#define VH_MAXF 400
#include "rtcommon.h"
#include "fiber_semaphore.h"

static fiber_semaphore_t sem;
/* harness bookkeeping: only touched by non-instrumented helpers (no scheduling point inside,
 * so each helper is atomic with respect to the baton) */
static volatile int in_wait;   /* script fibers between `call wait` and `ret wait` */
static volatile int avail;     /* initial + posts begun - admissions */

VH_NOINSTR static void bk(int d_in_wait, int d_avail) {
  __sync_fetch_and_add(&in_wait, d_in_wait);
  __sync_fetch_and_add(&avail, d_avail);
}

static void do_post(void) {
  bk(0, 1);
  vr_note("call post");
  fiber_semaphore_post(&sem);
  vr_note("ret post");
}

static void do_op(int t, const char* op) {
  (void)t;
  switch (op[0]) {
    case 'w':
      bk(1, 0);
      vr_note("call wait");
      fiber_semaphore_wait(&sem);
      vr_note("ret wait");
      bk(-1, -1);
      break;
    case 't': {
      vr_note("call trywait");
      int r = fiber_semaphore_trywait(&sem);
      vr_note("ret trywait %d", r == FIBER_SUCCESS);
      if (r == FIBER_SUCCESS) bk(0, -1);
      break;
    }
    case 'p':
      do_post();
      break;
    case 'y':
      fiber_yield();
      break;
  }
}

VH_NOINSTR static int sweeper_should_post(void) {
  int live = vh_script.nfibers - vh_done_count;
  return live > 0 && in_wait == live && avail < in_wait;
}

VH_NOINSTR int main(int argc, char** argv) {
  if (argc < 4) return 2;
  int k = atoi(argv[1]);
  int init = atoi(argv[2]);
  vh_parse(argv[3]);
  fiber_manager_init(k);
  vh_rt_prepare(); /* run queues named, main fiber registered: the runtime model can follow this log too */
  VH_DIRTY(sem);
  fiber_semaphore_init(&sem, init);
  avail = init;
  vr_reg(&sem.counter, sizeof sem.counter, "counter");
  vr_reg((void*)&sem.waiters.head, 8, "head");
  vr_reg((void*)&sem.waiters.tail, 8, "tail");
  vr_note("init sem %d %d %lu", k, init, (unsigned long)sem.waiters.tail);

  vh_do_op = do_op;
  for (int t = 0; t < vh_script.nfibers; t++) {
    vh_fibers[t] = fiber_create_no_sched(65536, vh_fiber_main, (void*)(long)t);
    vh_reg_fiber(vh_fibers[t], t);
    fiber_detach(vh_fibers[t]);
  }
  vr_note("spawn %d", vh_script.nfibers);
  for (int t = 0; t < vh_script.nfibers; t++) fiber_manager_schedule(fiber_manager_get(), vh_fibers[t]);
  while (vh_done_count < vh_script.nfibers) {
    if (sweeper_should_post()) do_post();
    fiber_yield();
    vr_relax();
  }
  vr_set_done();
  vr_note("final %d", fiber_semaphore_getvalue(&sem));
  vr_finish("OK");
}
