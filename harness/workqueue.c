/* workqueue.c — correspondence harness for src/work_queue.c + include/work_queue.h (C17).
 * usage: workqueue <script>; ops: p<v> = work_queue_push of an item carrying value v;
 *        y<k> = think for k scheduling points (nothing logged) so that the worker's "queue is
 *        drained" decision races with pushes that have not been announced yet.
 *
 * Every thread follows the documented client contract: push its items one by one; when a
 * push returns WORK_QUEUE_START_WORKING the thread becomes the worker and calls
 * work_queue_get_work until it returns WORK_QUEUE_EMPTY, then goes on with its script.
 * Nodes handed back by get_work (the previous stub of the MPSC fifo) are recycled,
 * most-recently-returned first, for later pushes of any thread.
 *
 * notes: call push <v> <node> / ret push <0|1> / call getwork / ret getwork <v> <node> /
 *        ret getwork 0   (0 = WORK_QUEUE_EMPTY)
 * cells: in_count out_count head tail n<k>.next n<k>.data ; nodes are objects n<k>, k >= 1
 *        (n1 = the stub allocated by mpsc_fifo_init). */
#include "common.h"
#include "work_queue.h"
/* the real implementation, compiled with the same instrumentation (include path has /repo/src) */
#include "work_queue.c"

#define MAXNODES 4096
static work_queue_t wq;
static work_queue_item_t* nodes[MAXNODES]; /* id -> node, ids start at 1 */
static int nnodes;
/* free list of node ids; harness-private and unregistered, hence atomic w.r.t. the baton scheduler */
static int freelist[MAXNODES];
static int nfree;

static int name_node(work_queue_item_t* n) {
  int id = ++nnodes;
  if (id >= MAXNODES) { fprintf(stderr, "too many nodes\n"); exit(2); }
  nodes[id] = n;
  vr_obj(n, sizeof *n, "n%d", id);
  vr_reg(&n->next, sizeof n->next, "n%d.next", id);
  vr_reg(&n->data, sizeof n->data, "n%d.data", id);
  return id;
}

static int node_id(work_queue_item_t* n) {
  for (int i = 1; i <= nnodes; i++)
    if (nodes[i] == n) return i;
  return 0;
}

/* VR_BIAS=.data:<k>: abstract item v carries payload word v - k (item k: a NULL payload); the
 * runtime prints the data cells plus k again, so model and monitor keep seeing v */
static long payload_bias;

/* client-side accesses to a node the client owns (before push / after get_work): not part
 * of the library, kept out of the access log */
__attribute__((no_sanitize_thread, noinline)) static void item_set(work_queue_item_t* n, long v) { n->data = (void*)(v - payload_bias); }
__attribute__((no_sanitize_thread, noinline)) static long item_get(work_queue_item_t* n) { return (long)n->data + payload_bias; }

static int take_node(void) {
  if (nfree > 0) return freelist[--nfree];
  work_queue_item_t* n = (work_queue_item_t*)calloc(1, sizeof *n);
  return name_node(n);
}

static void work_until_empty(void) {
  for (;;) {
    work_queue_item_t* item = NULL;
    vr_note("call getwork");
    int r = work_queue_get_work(&wq, &item);
    if (r == WORK_QUEUE_EMPTY) {
      vr_note("ret getwork 0");
      return;
    }
    int id = node_id(item);
    vr_note("ret getwork %ld %d", item_get(item), id);
    freelist[nfree++] = id;
  }
}

/* A long session that never found the fifo empty: in_count and out_count have both grown by
 * `wq_base` (the worker only rebases them when it drains the queue).  Applied once, right
 * after the first START of the run, before the worker's first get_work: exactly the state
 * wq_base further push/get_work pairs would have produced. */
static unsigned long long wq_base;
static int wq_based;
__attribute__((no_sanitize_thread, noinline)) static void apply_base(void) {
  if (!wq_base || wq_based) return;
  wq_based = 1;
  *(volatile int64_t*)&wq.in_count += (int64_t)wq_base;
  *(volatile int64_t*)&wq.out_count += (int64_t)wq_base;
}

static void do_op(int t, const char* op) {
  (void)t;
  if (op[0] == 'y') {
    for (long k = atol(op + 1); k > 0; k--) vr_point();
    return;
  }
  if (op[0] != 'p') return;
  long v = atol(op + 1);
  int id = take_node();
  item_set(nodes[id], v);
  vr_note("call push %ld %d", v, id);
  int r = work_queue_push(&wq, nodes[id]);
  vr_note("ret push %d", r);
  if (r == WORK_QUEUE_START_WORKING) {
    apply_base();
    work_until_empty();
  }
}

int main(int argc, char** argv) {
  if (argc < 2) return 2;
  vh_parse(argv[1]);
  { const char* b = getenv("VR_BIAS"); const char* c = b ? strrchr(b, ':') : 0; payload_bias = c ? atol(c + 1) : 0; }
  if (argc > 2) wq_base = strtoull(argv[2], 0, 10);
  VH_DIRTY(wq);
  if (!work_queue_init(&wq)) return 2;
  name_node(wq.fifo.head); /* n1 = initial stub */
  vr_reg(&wq.in_count, sizeof wq.in_count, "in_count");
  vr_reg(&wq.out_count, sizeof wq.out_count, "out_count");
  vr_reg(&wq.fifo.head, sizeof wq.fifo.head, "head");
  vr_reg(&wq.fifo.tail, sizeof wq.fifo.tail, "tail");
  vr_note("init workqueue %llu", wq_base);
  vh_run(do_op);
  /* quiescent now: one more push must be told to start working and must find exactly its
   * own item — otherwise something was left behind with no worker */
  do_op(0, "p999999");
  vr_finish("OK");
}
