/* chan.c — correspondence harness for include/fiber_channel.h (C11):
 *   kind b  fiber_bounded_channel_t        many senders, ONE receiver, capacity 2^p, send
 *                                          spins (fiber_yield) while full, messages non-NULL
 *   kind u  fiber_unbounded_channel_t      many senders, ONE receiver (MPSC queue of nodes)
 *   kind s  fiber_unbounded_sp_channel_t   ONE sender, ONE receiver (SPSC queue of nodes)
 * All three announce a message through ONE fiber_signal_t, which allows one waiting fiber:
 * the single receiver (client contract, fiber_channel.h / fiber_signal.h).
 *   kind B / U / S  the same three channels created with a NULL ready_signal ("specifying a
 *                   NULL signal means this channel will spin"): send never raises, the
 *                   blocking receive loops (bounded: through fiber_yield; unbounded / sp:
 *                   WITHOUT yielding — on one kernel thread such a receive on an empty
 *                   channel never lets a sender run, so the generator gives those kinds a
 *                   blocking `r` only with >= 2 kernel threads).
 *
 * usage: chan <kernel threads> <kind> <log2 capacity> <script>
 * script fiber 0 is the receiver; the other fibers are senders (ops: s<v> send the distinct
 * positive integer v, y yield).  For kind s/S exactly one sender.  Receiver ops:
 *   r  blocking receive          notes `call pop` / `ret pop <v>`
 *   t  *_try_receive, once       notes `call pop try` / `ret pop <v or 0>` (0 = reported empty)
 *   d  drain: try_receive, yielding after every empty report, until every message of the
 *      script has been received
 *   y  fiber_yield
 * Deadlock-free by construction: the receiver counts what it has got; an `r` that comes when
 * everything the script sends has already been received (earlier `t`s took it) is performed
 * as a `t`, so a blocking receive is only ever entered while a message is still owed by a
 * sender (pure sender fibers, which never wait for the receiver except on a full ring).  With
 * #r == #s and no `t` (the original scripts) every `r` blocks as before. */
#include "rtcommon.h"
#include "fiber_channel.h"

static long payload_bias;
static char kind;      /* b / u / s (lower-cased) */
static int spin_mode;  /* kind letter was upper case: ready_signal = NULL */
static int total_msgs; /* number of s<v> ops in the script */
static int got_msgs;   /* messages received so far (receiver fiber only) */
static fiber_signal_t sig;
static fiber_bounded_channel_t* bc;
static fiber_unbounded_channel_t uc;
static fiber_unbounded_sp_channel_t sc;
#define MAXMSG 64
static mpsc_fifo_node_t* umsg[MAXMSG];
static spsc_node_t* smsg[MAXMSG];


/* fiber_t.scratch is shared by several mechanisms ("be sure mechanisms do not conflict"): an
 * fd wait ended by close() really leaves (void*)-1 == FIBER_SIGNAL_READY_TO_WAKE there.  So
 * before every wait the harness dirties the waiting fiber's own scratch with that value, by a
 * store the instrumentation does not see (no event, no scheduling point): a wait that relied
 * on scratch being NULL on entry would be woken before its context is saved. */
VH_NOINSTR static void dirty_own_scratch(void) {
  fiber_manager_get()->current_fiber->scratch = (void*)(intptr_t)-1;
}

/* one *_try_receive; returns 1 if it delivered a message, 0 = the channel reported empty */
static int do_try(void) {
  long v = 0;
  int got = 0;
  vr_note("call pop try");
  if (kind == 'b') {
    /* the log shows what the call really did: `ret pop <*out>`; a "success" without a
     * message or a "failure" that stored one contradicts the model at the return note */
    void* out = NULL;
    int ok = fiber_bounded_channel_try_receive(bc, &out);
    v = (long)out;
    if (ok) got = 1;
  } else if (kind == 'u') {
    mpsc_fifo_node_t* n = fiber_unbounded_channel_try_receive(&uc);
    if (n) { v = (long)n->data + payload_bias; got = 1; }
  } else {
    spsc_node_t* n = fiber_unbounded_sp_channel_try_receive(&sc);
    if (n) { v = (long)n->data + payload_bias; got = 1; }
  }
  if (got) got_msgs++;
  vr_note("ret pop %ld", v);
  return got;
}

static void do_op(int t, const char* op) {
  switch (op[0]) {
    case 's': {
      long v = atol(op + 1);
      int r;
      vr_note("call push %ld", v);
      if (kind == 'b') {
        r = fiber_bounded_channel_send(bc, (void*)v);
      } else if (kind == 'u') {
        umsg[v]->data = (void*)(v - payload_bias);
        r = fiber_unbounded_channel_send(&uc, umsg[v]);
      } else {
        smsg[v]->data = (void*)(v - payload_bias);
        r = fiber_unbounded_sp_channel_send(&sc, smsg[v]);
      }
      vr_note("woke %d", r);
      vr_note("ret push 1");
      break;
    }
    case 'd':
      while (got_msgs < total_msgs) {
        if (!do_try()) fiber_yield();
      }
      break;
    case 't':
      do_try();
      break;
    case 'r': {
      long v;
      if (got_msgs >= total_msgs) { /* nothing owed any more: must not block */
        do_try();
        break;
      }
      vr_note("call pop");
      dirty_own_scratch(); /* receive may wait on the ready_signal */
      if (kind == 'b') {
        v = (long)fiber_bounded_channel_receive(bc);
      } else if (kind == 'u') {
        mpsc_fifo_node_t* n = fiber_unbounded_channel_receive(&uc);
        v = (long)n->data + payload_bias;
      } else {
        spsc_node_t* n = fiber_unbounded_sp_channel_receive(&sc);
        v = (long)n->data + payload_bias;
      }
      got_msgs++;
      vr_note("ret pop %ld", v);
      break;
    }
    case 'y':
      fiber_yield();
      break;
  }
  (void)t;
}

VH_NOINSTR int main(int argc, char** argv) {
  if (argc < 5) return 2;
  int k = atoi(argv[1]);
  kind = argv[2][0];
  if (kind >= 'A' && kind <= 'Z') {
    spin_mode = 1;
    kind = (char)(kind - 'A' + 'a');
  }
  int p2 = atoi(argv[3]);
  vh_parse(argv[4]);
  /* VR_BIAS=.data:<k> (unbounded channels only): message v carries payload word v - k, so
   * message k is a NULL payload in the real code; the runtime prints the data cells plus k */
  { const char* b = getenv("VR_BIAS"); const char* c = b ? strrchr(b, ':') : 0; payload_bias = c ? atol(c + 1) : 0; }
  for (int t = 0; t < vh_script.nfibers; t++)
    for (int i = 0; i < vh_script.nops[t]; i++)
      if (vh_script.ops[t][i][0] == 's') total_msgs++;
  fiber_signal_t* const rsig = spin_mode ? NULL : &sig;
  const char* const mode = spin_mode ? " spin" : "";
  fiber_manager_init(k);
  VH_DIRTY(sig);
  fiber_signal_init(&sig);
  vr_reg(&sig.waiter, 8, "waiter");
  if (kind == 'b') {
    vh_dirty_heap();
    bc = fiber_bounded_channel_create(p2, rsig);
    vr_reg(&bc->high, 8, "high");
    vr_reg(&bc->low, 8, "low");
    for (uint32_t i = 0; i < bc->size; i++) vr_reg(&bc->buffer[i], 8, "buf%u", i);
    vr_note("init chan b %u%s", bc->size, mode);
  } else if (kind == 'u') {
    VH_DIRTY(uc);
    fiber_unbounded_channel_init(&uc, rsig);
    vr_reg((void*)&uc.queue.head, 8, "head");
    vr_reg(&uc.queue.tail, 8, "tail");
    vr_obj(uc.queue.tail, sizeof(mpsc_fifo_node_t), "M0");
    vr_reg((void*)&uc.queue.tail->next, 8, "M0.next");
    vr_reg(&uc.queue.tail->data, 8, "M0.data");
    for (int v = 1; v < MAXMSG; v++) {
      umsg[v] = calloc(1, sizeof(mpsc_fifo_node_t));
      vr_obj(umsg[v], sizeof(mpsc_fifo_node_t), "M%d", v);
      vr_reg((void*)&umsg[v]->next, 8, "M%d.next", v);
      vr_reg(&umsg[v]->data, 8, "M%d.data", v);
    }
    vr_note("init chan u 0%s", mode);
  } else {
    VH_DIRTY(sc);
    fiber_unbounded_sp_channel_init(&sc, rsig);
    vr_reg(&sc.queue.head, 8, "head");
    vr_reg(&sc.queue.tail, 8, "tail");
    vr_obj(sc.queue.tail, sizeof(spsc_node_t), "M0");
    vr_reg(&sc.queue.tail->next, 8, "M0.next");
    vr_reg(&sc.queue.tail->data, 8, "M0.data");
    for (int v = 1; v < MAXMSG; v++) {
      smsg[v] = calloc(1, sizeof(spsc_node_t));
      vr_obj(smsg[v], sizeof(spsc_node_t), "M%d", v);
      vr_reg(&smsg[v]->next, 8, "M%d.next", v);
      vr_reg(&smsg[v]->data, 8, "M%d.data", v);
    }
    vr_note("init chan s 0%s", mode);
  }
  vh_rt_run(k, do_op, 0);
  vr_finish("OK");
}
