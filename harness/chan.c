/* chan.c — correspondence harness for include/fiber_channel.h (C11):
 *   kind b  fiber_bounded_channel_t        many senders, ONE receiver, capacity 2^p, send
 *                                          spins (fiber_yield) while full, messages non-NULL
 *   kind u  fiber_unbounded_channel_t      many senders, ONE receiver (MPSC queue of nodes)
 *   kind s  fiber_unbounded_sp_channel_t   ONE sender, ONE receiver (SPSC queue of nodes)
 * All three announce a message through ONE fiber_signal_t, which allows one waiting fiber:
 * the single receiver (client contract, fiber_channel.h / fiber_signal.h).
 *
 * usage: chan <kernel threads> <kind> <log2 capacity> <script>
 * script fiber 0 is the receiver (ops: r receive, y yield); the other fibers are senders
 * (ops: s<v> send the distinct positive integer v, y yield).  For kind s exactly one sender.
 * The generator keeps  #r == #s  so every receive is matched (deadlock-free by construction). */
#include "rtcommon.h"
#include "fiber_channel.h"

static char kind;
static fiber_signal_t sig;
static fiber_bounded_channel_t* bc;
static fiber_unbounded_channel_t uc;
static fiber_unbounded_sp_channel_t sc;
#define MAXMSG 64
static mpsc_fifo_node_t* umsg[MAXMSG];
static spsc_node_t* smsg[MAXMSG];


/* fiber_t.scratch is shared by several mechanisms ("be sure mechanisms do not conflict"): an
 * fd wait ended by close() really leaves (void*)-1 == FIBER_SIGNAL_READY_TO_WAKE there.  So
 * before every wait the harness dirties the waiting fiber's own scratch with that value, by a
 * store the instrumentation does not see (no event, no scheduling point): a wait that relied
 * on scratch being NULL on entry would be woken before its context is saved. */
VH_NOINSTR static void dirty_own_scratch(void) {
  fiber_manager_get()->current_fiber->scratch = (void*)(intptr_t)-1;
}

static void do_op(int t, const char* op) {
  switch (op[0]) {
    case 's': {
      long v = atol(op + 1);
      int r;
      vr_note("call push %ld", v);
      if (kind == 'b') {
        r = fiber_bounded_channel_send(bc, (void*)v);
      } else if (kind == 'u') {
        umsg[v]->data = (void*)v;
        r = fiber_unbounded_channel_send(&uc, umsg[v]);
      } else {
        smsg[v]->data = (void*)v;
        r = fiber_unbounded_sp_channel_send(&sc, smsg[v]);
      }
      vr_note("woke %d", r);
      vr_note("ret push 1");
      break;
    }
    case 'r': {
      long v;
      vr_note("call pop");
      dirty_own_scratch(); /* receive may wait on the ready_signal */
      if (kind == 'b') {
        v = (long)fiber_bounded_channel_receive(bc);
      } else if (kind == 'u') {
        mpsc_fifo_node_t* n = fiber_unbounded_channel_receive(&uc);
        v = (long)n->data;
      } else {
        spsc_node_t* n = fiber_unbounded_sp_channel_receive(&sc);
        v = (long)n->data;
      }
      vr_note("ret pop %ld", v);
      break;
    }
    case 'y':
      fiber_yield();
      break;
  }
  (void)t;
}

VH_NOINSTR int main(int argc, char** argv) {
  if (argc < 5) return 2;
  int k = atoi(argv[1]);
  kind = argv[2][0];
  int p2 = atoi(argv[3]);
  vh_parse(argv[4]);
  fiber_manager_init(k);
  VH_DIRTY(sig);
  fiber_signal_init(&sig);
  vr_reg(&sig.waiter, 8, "waiter");
  if (kind == 'b') {
    vh_dirty_heap();
    bc = fiber_bounded_channel_create(p2, &sig);
    vr_reg(&bc->high, 8, "high");
    vr_reg(&bc->low, 8, "low");
    for (uint32_t i = 0; i < bc->size; i++) vr_reg(&bc->buffer[i], 8, "buf%u", i);
    vr_note("init chan b %u", bc->size);
  } else if (kind == 'u') {
    VH_DIRTY(uc);
    fiber_unbounded_channel_init(&uc, &sig);
    vr_reg((void*)&uc.queue.head, 8, "head");
    vr_reg(&uc.queue.tail, 8, "tail");
    vr_obj(uc.queue.tail, sizeof(mpsc_fifo_node_t), "M0");
    vr_reg((void*)&uc.queue.tail->next, 8, "M0.next");
    vr_reg(&uc.queue.tail->data, 8, "M0.data");
    for (int v = 1; v < MAXMSG; v++) {
      umsg[v] = calloc(1, sizeof(mpsc_fifo_node_t));
      vr_obj(umsg[v], sizeof(mpsc_fifo_node_t), "M%d", v);
      vr_reg((void*)&umsg[v]->next, 8, "M%d.next", v);
      vr_reg(&umsg[v]->data, 8, "M%d.data", v);
    }
    vr_note("init chan u 0");
  } else {
    VH_DIRTY(sc);
    fiber_unbounded_sp_channel_init(&sc, &sig);
    vr_reg(&sc.queue.head, 8, "head");
    vr_reg(&sc.queue.tail, 8, "tail");
    vr_obj(sc.queue.tail, sizeof(spsc_node_t), "M0");
    vr_reg(&sc.queue.tail->next, 8, "M0.next");
    vr_reg(&sc.queue.tail->data, 8, "M0.data");
    for (int v = 1; v < MAXMSG; v++) {
      smsg[v] = calloc(1, sizeof(spsc_node_t));
      vr_obj(smsg[v], sizeof(spsc_node_t), "M%d", v);
      vr_reg(&smsg[v]->next, 8, "M%d.next", v);
      vr_reg(&smsg[v]->data, 8, "M%d.data", v);
    }
    vr_note("init chan s 0");
  }
  vh_rt_run(k, do_op, 0);
  vr_finish("OK");
}
