/* distfifo.c — correspondence harness for include/dist_fifo.h (C20, part distfifo).
 * usage: distfifo <owners> <script>
 *   The stub allocated by dist_fifo_init is node n1.  owners = "0,0,1": node i+2 (n2, n3, ...)
 *   is initially owned by script thread owners[i].
 *   Script thread 0 is THE pusher (client contract: one distinguished pusher); it may pop too.
 *   ops: p<v> = push the node acquired most recently, carrying value v (thread 0 only; no-op
 *               when it owns no node)
 *        o    = trypop: EMPTY -> "ret pop 0", RETRY -> "ret retry" (NOT an empty answer),
 *               node -> "ret pop <data>"; the returned node is the OLD stub with the data
 *               copied in and is kept by the popping thread
 *        g    = give the node acquired most recently to the pusher (threads other than 0)
 * so that 2-3 nodes cycle through the fifo while other poppers hold stale snapshots. */
#include "common.h"
#include "dist_fifo.h"

#define MAXN 16
static dist_fifo_t fifo __attribute__((aligned(64)));
static dist_fifo_node_t* nodes[MAXN + 2];
static int nn;
static dist_fifo_node_t* own[VH_MAXT][MAXN + 2];
static int nown[VH_MAXT];

static int node_id(dist_fifo_node_t* n) {
  for (int i = 1; i <= nn; i++)
    if (nodes[i] == n) return i;
  return 0;
}

/* returns 1 node, 0 empty, -1 retry */
static int do_pop(int t) {
  vr_note("call pop");
  dist_fifo_node_t* n = dist_fifo_trypop(&fifo);
  if (n == DIST_FIFO_EMPTY) {
    vr_note("ret pop 0");
    return 0;
  }
  if (n == DIST_FIFO_RETRY) {
    vr_note("ret retry");
    return -1;
  }
  long v = (long)n->data;
  vr_note("ret pop %ld", v);
  own[t][nown[t]++] = n;
  return 1;
}

static void do_op(int t, const char* op) {
  if (op[0] == 'p') {
    if (t != 0 || !nown[0]) return;
    long v = atol(op + 1);
    dist_fifo_node_t* n = own[0][--nown[0]];
    vr_note("call push %ld", v);
    n->data = (void*)v;
    dist_fifo_push(&fifo, n);
    vr_note("ret push 1");
  } else if (op[0] == 'g') {
    if (t == 0 || !nown[t]) return;
    dist_fifo_node_t* n = own[t][--nown[t]];
    /* threads are serialised by the baton, so this hand-over needs no further sync */
    vr_note("give %d", node_id(n));
    own[0][nown[0]++] = n;
  } else {
    do_pop(t);
  }
}

int main(int argc, char** argv) {
  if (argc < 3) return 2;
  vh_parse(argv[2]);
  VH_DIRTY(fifo);
  if (!dist_fifo_init(&fifo)) return 2;
  nodes[++nn] = fifo.tail;
  vr_obj(fifo.tail, sizeof *fifo.tail, "n1");
  vr_reg(&fifo.tail->next, 8, "next1");
  vr_reg(&fifo.tail->data, 8, "data1");
  char note[256] = "init distfifo";
  char* dup = strdup(argv[1]);
  char* save = NULL;
  for (char* o = strtok_r(dup, ",", &save); o && nn < MAXN; o = strtok_r(NULL, ",", &save)) {
    int t = atoi(o);
    if (t < 0 || t >= VH_MAXT) return 2;
    dist_fifo_node_t* n = calloc(1, sizeof *n);
    nodes[++nn] = n;
    vr_obj(n, sizeof *n, "n%d", nn);
    vr_reg(&n->next, 8, "next%d", nn);
    vr_reg(&n->data, 8, "data%d", nn);
    own[t][nown[t]++] = n;
    snprintf(note + strlen(note), sizeof note - strlen(note), " %d", t);
  }
  /* the (counter, node) head pair is ONE 16-byte cell: counter = hd/8, node = hd+8/8 */
  vr_reg(&fifo.head, 16, "hd");
  /* the pusher's private tail pointer (registered so that the model checks it too) */
  vr_reg(&fifo.tail, 8, "tail");
  vr_note("%s", note);
  vh_run(do_op);
  /* drain single-threaded; RETRY cannot happen any more but is handled anyway */
  for (;;) {
    int r = do_pop(0);
    if (r == 0) break;
  }
  vr_finish("OK");
}
