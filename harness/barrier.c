/* barrier.c — correspondence harness for src/fiber_barrier.c (C12).
 * usage: barrier <kernel threads> <script>
 * The script has one op list per fiber; the barrier's `count` is the number of script
 * fibers (client assumption of the property: exactly `count` participating fibers, all of
 * them doing the same number of rounds).  ops: w = one fiber_barrier_wait (the next round of
 * this fiber), y = fiber_yield between rounds.  Every fiber must have the same number of
 * `w` ops, otherwise the script itself would deadlock.
 * Optional 4th argument E > 0: the barrier is created for nfibers + E participants (e.g. E =
 * 65536) although only nfibers fibers ever arrive: NOBODY may pass.  The main fiber waits until
 * every script fiber is inside its first wait, keeps yielding for a while, and ends the run
 * (status OK) with all of them still parked; a fiber that returns is reported by the monitor,
 * which is told the requested count. */
#include "rtcommon.h"
#include "fiber_barrier.h"

static fiber_barrier_t bar;
static int round_of[VH_MAXF];
static volatile int inside_wait;

static void do_op(int t, const char* op) {
  switch (op[0]) {
    case 'w': {
      int k = ++round_of[t];
      vr_note("call wait %d", k);
      inside_wait++;
      int r = fiber_barrier_wait(&bar);
      inside_wait--;
      vr_note("ret wait %d %d", k, r == FIBER_BARRIER_SERIAL_FIBER ? 1 : 0);
      break;
    }
    case 'y':
      fiber_yield();
      break;
  }
}

VH_NOINSTR int main(int argc, char** argv) {
  if (argc < 3) return 2;
  int k = atoi(argv[1]);
  vh_parse(argv[2]);
  int rounds = -1;
  for (int t = 0; t < vh_script.nfibers; t++) {
    int n = 0;
    for (int i = 0; i < vh_script.nops[t]; i++) n += vh_script.ops[t][i][0] == 'w';
    if (rounds >= 0 && n != rounds) { fprintf(stderr, "unbalanced script\n"); return 2; }
    rounds = n;
  }
  fiber_manager_init(k);
  /* init must not rely on zeroed storage (a barrier on the stack / in recycled memory) */
  memset(&bar, 0xAB, sizeof bar);
  __asm__ __volatile__("" : : "r"(&bar) : "memory");
  const unsigned long extra = argc > 4 ? strtoul(argv[4], 0, 10) : 0;
  fiber_barrier_init(&bar, (uint32_t)(vh_script.nfibers + extra));
  /* a long-lived barrier: optionally start `counter` at a multiple of count just below
   * 2^32 (as after that many arrivals), so the 32-bit boundary is crossed within the run */
  unsigned long long base = argc > 3 ? strtoull(argv[3], 0, 10) : 0;
  base -= base % (2ull * (unsigned long long)(vh_script.nfibers + extra)); /* keep round parity (queue choice) aligned */
  if (argc > 3) bar.counter = base; /* otherwise keep exactly what fiber_barrier_init left */
  vr_reg(&bar.counter, sizeof bar.counter, "counter");
  /* the waiter queue(s): one in the code as it is; a candidate fix may have two (parity) */
  mpsc_fifo_t* q = (mpsc_fifo_t*)&bar.waiters;
  int nq = (int)(sizeof bar.waiters / sizeof(mpsc_fifo_t));
  for (int i = 0; i < nq; i++) {
    if (i == 0) {
      vr_reg((void*)&q[i].head, 8, "head");
      vr_reg(&q[i].tail, 8, "tail");
      vr_obj(q[i].tail, sizeof(mpsc_fifo_node_t), "S");
      vr_reg((void*)&q[i].tail->next, 8, "S.next");
      vr_reg(&q[i].tail->data, 8, "S.data");
    } else {
      vr_reg((void*)&q[i].head, 8, "head%d", i);
      vr_reg(&q[i].tail, 8, "tail%d", i);
      vr_obj(q[i].tail, sizeof(mpsc_fifo_node_t), "S%d", i);
      vr_reg((void*)&q[i].tail->next, 8, "S%d.next", i);
      vr_reg(&q[i].tail->data, 8, "S%d.data", i);
    }
  }
  vr_note("init barrier %lu %d %d %d %llu", vh_script.nfibers + extra, nq, rounds, k, base);
  if (extra) {
    /* more participants announced than exist: nobody may ever pass */
    vh_do_op = do_op;
    vh_rt_prepare();
    for (int t = 0; t < vh_script.nfibers; t++) {
      vh_fibers[t] = fiber_create_no_sched(65536, vh_fiber_main, (void*)(long)t);
      vh_reg_fiber(vh_fibers[t], t);
      fiber_detach(vh_fibers[t]);
    }
    vr_note("spawn %d", vh_script.nfibers);
    for (int t = 0; t < vh_script.nfibers; t++) fiber_manager_schedule(fiber_manager_get(), vh_fibers[t]);
    int settled = 0;
    for (long i = 0; i < 20000 && settled < 60; i++) {
      fiber_yield();
      vr_relax();
      settled = (inside_wait == vh_script.nfibers && vh_done_count == 0) ? settled + 1 : 0;
      if (vh_done_count) break; /* somebody got through: the monitor has the `ret wait` */
    }
    vr_set_done();
    vr_finish("OK");
  }
  vh_rt_run(k, do_op, 0);
  vr_finish("OK");
}
