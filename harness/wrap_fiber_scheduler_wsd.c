/* unity wrapper: the scheduler's file-static state, for naming the run queues in the log.
 * Compiled INSTEAD of the library's fiber_scheduler_wsd.c (vlib: wrap_<name>.c rule), with
 * the same flags (incl. -DVR_WSD_WRAP so the deque call sites are logged). */
#include "fiber_scheduler_wsd.c"

#include "vrt.h"

__attribute__((no_sanitize_thread)) void vh_name_run_queues(void) {
  for (size_t i = 0; i < fiber_scheduler_num_threads; i++) {
    /* queue_one starts as schedule_from, queue_two as store_to */
    vr_obj(fiber_schedulers[i].queue_one, sizeof(wsd_work_stealing_deque_t), "Q%zua", i);
    vr_obj(fiber_schedulers[i].queue_two, sizeof(wsd_work_stealing_deque_t), "Q%zub", i);
  }
}
